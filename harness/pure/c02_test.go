package pure

import (
	"bytes"
	"fmt"
	"testing"

	"verif/harness/kit"
	"verif/harness/ref"

	"github.com/cuteLittleDevil/go-jt808/protocol/jt808"
	"github.com/cuteLittleDevil/go-jt808/shared/consts"
	"pgregory.net/rapid"
)

// C02: Decode accepts exactly the well-formed frames and reads every field as the standard lays it out.

type c02Case struct {
	Frame  kit.Hex `json:"frame"`
	Origin string  `json:"origin"`
}

// sanitize keeps the case inside the property's domain: no 0x7E strictly inside.
func sanitizeInterior(b []byte) []byte {
	for i := 1; i < len(b)-1; i++ {
		if b[i] == 0x7e {
			b[i] = 0x7f
		}
	}
	return b
}

func genC02(t *rapid.T) c02Case {
	kind := rapid.IntRange(0, 9).Draw(t, "kind")
	if kind == 0 { // arbitrary strings over a special-heavy alphabet
		n := rapid.IntRange(0, 40).Draw(t, "n")
		b := make([]byte, n)
		for i := range b {
			b[i] = rapid.SampledFrom([]byte{0x7e, 0x7d, 0x01, 0x02, 0x00, 0x41, 0xff, 0x40, 0x20}).Draw(t, "b")
		}
		if rapid.Bool().Draw(t, "delims") && n >= 2 {
			b[0], b[n-1] = 0x7e, 0x7e
		}
		return c02Case{Frame: sanitizeInterior(b), Origin: "alphabet"}
	}
	spec := genSpec(t, "f", genBodyLen(t, "bodylen"))
	frame := spec.Spec().Build()
	origin := "valid"
	switch kind {
	case 1, 2: // valid as built
	case 3: // raw (unescaped) 7D checksum: steer checksum to 7D through the serial, then un-escape the tail
		raw := spec.Spec().Raw()
		s2 := spec
		s2.Serial ^= uint16(raw[len(raw)-1] ^ 0x7d)
		raw = s2.Spec().Raw()
		esc := ref.Escape(raw[:len(raw)-1])
		frame = append(esc[:len(esc)-1], 0x7d, 0x7e)
		if rapid.Bool().Draw(t, "escaped_tail") {
			frame = s2.Spec().Build()
		}
		origin = "valid_chk7d"
	case 4: // single bit flip
		i := rapid.IntRange(0, len(frame)-1).Draw(t, "pos")
		frame[i] ^= 1 << rapid.IntRange(0, 7).Draw(t, "bit")
		origin = "bitflip"
	case 5: // single byte substitution
		i := rapid.IntRange(0, len(frame)-1).Draw(t, "pos")
		frame[i] = rapid.SampledFrom([]byte{0x7d, 0x01, 0x02, 0x00, 0xff, 0x03, 0x7c}).Draw(t, "sub")
		origin = "substitute"
	case 6: // truncation / extension
		if rapid.Bool().Draw(t, "trunc") {
			n := rapid.IntRange(0, len(frame)-1).Draw(t, "keep")
			frame = frame[:n]
			if rapid.Bool().Draw(t, "reclose") {
				frame = append(frame, 0x7e)
			}
			origin = "truncate"
		} else {
			extra := rapid.SliceOfN(rapid.SampledFrom([]byte{0x00, 0x7d, 0x01, 0x02, 0x55}), 1, 3).Draw(t, "extra")
			at := rapid.IntRange(1, len(frame)-1).Draw(t, "at")
			frame = append(frame[:at:at], append(extra, frame[at:]...)...)
			origin = "extend"
		}
	case 7: // declared length off by -1/+1/other while the checksum stays right
		raw := spec.Spec().Raw()
		d := rapid.SampledFrom([]int{-1, 1, 2, -2, 512}).Draw(t, "delta")
		l := (len(spec.Body) + d) & 0x3ff
		raw[2] = raw[2]&0xfc | byte(l>>8)
		raw[3] = byte(l)
		raw[len(raw)-1] = ref.Xor(raw[:len(raw)-1])
		frame = ref.Escape(raw)
		origin = "length_field"
	case 8: // header cut at a layout boundary, checksum recomputed
		raw := spec.Spec().Raw()
		keep := rapid.IntRange(0, min(len(raw)-1, 24)).Draw(t, "keep")
		cut := append([]byte(nil), raw[:keep]...)
		cut = append(cut, ref.Xor(cut))
		frame = ref.Escape(cut)
		origin = "header_cut"
	default: // toggle version / fragment bit keeping the checksum right
		raw := spec.Spec().Raw()
		raw[2] ^= rapid.SampledFrom([]byte{0x20, 0x40, 0x60, 0x80, 0x04, 0x1c}).Draw(t, "attrflip")
		raw[len(raw)-1] = ref.Xor(raw[:len(raw)-1])
		frame = ref.Escape(raw)
		origin = "attr_bits"
	}
	return c02Case{Frame: sanitizeInterior(frame), Origin: origin}
}

// c02PriorFrame is a valid fragmented 2019 frame, dense in escapes, decoded into the re-used message after the
// fresh message decoded the case (so decode buffers recycled between calls would show in the fresh message's fields).
var c02PriorFrame = ref.Spec{ID: 0x0801, Version2019: true, VersionByte: 1, Fragmented: true, Total: 3, No: 2, Serial: 0x7e7d,
	PhoneBCD: []byte{0x7e, 0x7d, 0x13, 0x80, 0x01, 0x38, 0x00, 0x7d, 0x7e, 0x11},
	Body:     []byte{0x7e, 0x7d, 0x01, 0x02, 0x7d, 0x7d, 0x7e, 0x7e, 0xa5, 0x5a, 0x7e, 0x33, 0x7d, 0x44, 0x55, 0x66, 0x77, 0x88, 0x99, 0xaa, 0xbb, 0xcc, 0xdd, 0xee, 0xff, 0x12, 0x34, 0x56}}.Build()

// c02Cousins builds valid frames whose phone differs from f's only in its leading bytes or in the layout that carries it.
func c02Cousins(f *ref.Frame) [][]byte {
	var phones [][]byte
	p := f.PhoneBCD
	lead := []byte{0x12, 0x34}
	if len(p) >= 2 && p[0] == 0x12 {
		lead = []byte{0x56, 0x78}
	}
	switch len(p) {
	case 10:
		phones = append(phones, append(append([]byte{}, lead...), p[2:]...), append([]byte{}, p[4:]...), append([]byte{}, p[:6]...))
	case 6:
		phones = append(phones, append(append([]byte{}, p...), 0, 0, 0, 0), append([]byte{0, 0, 0, 0}, p...), append(append([]byte{}, lead...), append([]byte{0, 0}, p...)...),
			append(append([]byte{}, lead...), p[2:]...))
	}
	var out [][]byte
	for _, ph := range phones {
		out = append(out, ref.Spec{ID: f.ID, Version2019: len(ph) == 10, VersionByte: 1, PhoneBCD: ph, Serial: f.Serial}.Build())
	}
	return out
}

func checkC02(c c02Case, _ *kit.Collector) kit.Result {
	return checkC02Frame(c.Frame, c.Origin)
}

func checkC02Frame(frame []byte, origin string) kit.Result {
	res := kit.Result{}
	in := make([]byte, len(frame)) // exact capacity
	copy(in, frame)
	f, why := ref.Validate(frame)
	if why == "" {
		// the process has seen "cousin" frames before: same ID and serial, a phone that shares most of its bytes with
		// this frame's phone, in the same and in the other header layout. What Decode says about this frame must not
		// depend on them (caches keyed too narrowly, state kept between calls).
		for _, cousin := range c02Cousins(f) {
			_ = jt808.NewJTMessage().Decode(cousin)
		}
	}
	msg := jt808.NewJTMessage()
	err := msg.Decode(in)
	verdict := "reject_" + why
	if why == "" {
		verdict = "accept"
	}
	res.Labels = []string{origin, verdict}
	res.NT = why == "" || origin != "alphabet"
	if !bytes.Equal(in, frame) {
		res.Err = kit.Fail("Decode modified its input")
		return res
	}
	if (err == nil) != (why == "") {
		res.Err = kit.Fail("frame %x: library says err=%v, reference says %q (\"\" = well-formed)", head(frame), err, why)
		return res
	}
	// the verdict is a function of the byte string: a message value that decoded another (fragmented) frame
	// before must accept / reject the same strings and read the same fields
	reused := jt808.NewJTMessage()
	if e0 := reused.Decode(append([]byte(nil), c02PriorFrame...)); e0 != nil {
		res.Err = kit.Fail("HARNESS-ERROR prior frame rejected: %v", e0)
		return res
	}
	err2 := reused.Decode(append([]byte(nil), frame...))
	if (err2 == nil) != (err == nil) {
		res.Err = kit.Fail("frame %x: a fresh JTMessage says err=%v, one that decoded a fragmented frame before says err=%v", head(frame), err, err2)
		return res
	}
	if err == nil {
		a, b := msg.Header, reused.Header
		if a.ID != b.ID || a.SerialNumber != b.SerialNumber || a.SubPackageSum != b.SubPackageSum || a.SubPackageNo != b.SubPackageNo ||
			a.TerminalPhoneNo != b.TerminalPhoneNo || a.ProtocolVersion != b.ProtocolVersion || *a.Property != *b.Property || !bytes.Equal(msg.Body, reused.Body) {
			res.Err = kit.Fail("frame %x decodes differently on a JTMessage that decoded a fragmented frame before", head(frame))
			return res
		}
	}
	if why != "" {
		return res
	}
	h := msg.Header
	var errs []string
	chk := func(name string, got, want any) {
		if fmt.Sprint(got) != fmt.Sprint(want) {
			errs = append(errs, fmt.Sprintf("%s=%v want %v", name, got, want))
		}
	}
	chk("ID", h.ID, f.ID)
	chk("BodyDayaLen", int(h.Property.BodyDayaLen), f.BodyLen)
	b2i := func(b bool) int {
		if b {
			return 1
		}
		return 0
	}
	chk("PacketFragmented", int(h.Property.PacketFragmented), b2i(f.Fragmented))
	chk("Version", int(h.Property.Version), b2i(f.Version2019))
	if e := h.Property.EncryptMethod; e != f.Encrypt10 && e != f.Encrypt3 {
		errs = append(errs, fmt.Sprintf("EncryptMethod=%d want %d (bit 10) or %d (bits 10..12)", e, f.Encrypt10, f.Encrypt3))
	}
	wantVer := consts.JT808Protocol2013
	if f.Version2019 {
		wantVer = consts.JT808Protocol2019
	}
	chk("ProtocolVersion", h.ProtocolVersion, wantVer)
	chk("SerialNumber", h.SerialNumber, f.Serial)
	chk("SubPackageSum", h.SubPackageSum, f.Total)
	chk("SubPackageNo", h.SubPackageNo, f.No)
	{ // nibbles a..f are rendered as lower-case letters (pinned by the repository's TestBcd2Dec)
		if ref.StripZeros(h.TerminalPhoneNo) != ref.StripZeros(ref.PhoneDigits(f.PhoneBCD)) {
			errs = append(errs, fmt.Sprintf("TerminalPhoneNo=%q want %q modulo leading zeros", h.TerminalPhoneNo, ref.PhoneDigits(f.PhoneBCD)))
		}
	}
	if !bytes.Equal(msg.Body, f.Body) {
		errs = append(errs, fmt.Sprintf("Body=%x want %x", head(msg.Body), head(f.Body)))
	}
	chk("VerifyCode", msg.VerifyCode, f.Check)
	if len(errs) > 0 {
		res.Err = kit.Fail("frame %x accepted but fields differ from the standard layout: %v", head(frame), errs)
	}
	return res
}

func TestC02(t *testing.T) {
	kit.Run(t, kit.Prop[c02Case]{ID: "C02", Part: "TestC02", Gen: genC02, Check: checkC02})
}

// TestC02Enum: for 4 header shapes x declared length 0..K x every wire string w over
// {7D,01,02,00,41,FF} with |w| <= L x checksum tails, compare Decode with the reference.
func TestC02Enum(t *testing.T) {
	kit.Enum(t, "C02", "TestC02Enum", "TestC02", func(col *kit.Collector) (any, error) {
		L, K := 5, 6
		if kit.Thorough() {
			L, K = 7, 8
		}
		shard, shards := kit.Shard()
		alpha := []byte{0x7d, 0x01, 0x02, 0x00, 0x41, 0xff}
		var space int64
		idx := 0
		w := make([]byte, 0, L)
		var firstBad any
		var firstErr error
		var rec func(depth int) bool
		try := func(frame []byte, origin string) bool {
			space++
			res := checkC02Frame(frame, origin)
			col.RecordHash(kit.HashBytes(frame), res, func() any { return c02Case{Frame: append([]byte(nil), frame...), Origin: origin} })
			if res.Err != nil {
				firstBad, firstErr = c02Case{Frame: append([]byte(nil), frame...), Origin: origin}, res.Err
				return false
			}
			return true
		}
		visit := func() bool {
			idx++
			if idx%shards != shard {
				return true
			}
			// body bytes as the reference would unescape them (if w is validly escaped) else raw
			body := w
			if p, why := ref.Unescape(append(append([]byte{0x7e}, w...), 0x00, 0x7e)); why == "" {
				body = p[:len(p)-1]
			}
			for shape := 0; shape < 4; shape++ {
				for k := 0; k <= K; k++ {
					s := ref.Spec{ID: 0x0200, Version2019: shape&1 == 1, VersionByte: 1, Fragmented: shape&2 == 2, Total: 2, No: 1, Serial: 0x0100}
					s.PhoneBCD = ref.PhoneBCDFromDigits("13800138000", map[bool]int{false: 6, true: 10}[s.Version2019])
					s.Body = body
					raw := s.Raw()
					raw[2] = raw[2]&0xfc | byte(k>>8)
					raw[3] = byte(k)
					hdrLen := len(raw) - 1 - len(body)
					c := ref.Xor(raw[:len(raw)-1])
					hdr := ref.Escape(raw[:hdrLen])
					hdr = hdr[:len(hdr)-1] // drop closing delimiter
					base := append(append([]byte(nil), hdr...), w...)
					tails := [][]byte{ref.Escape([]byte{c})[1:], {c ^ 1, 0x7e}, {0x7e}}
					for _, tail := range tails {
						fr := append(append([]byte(nil), base...), tail...)
						if bytes.IndexByte(fr[1:len(fr)-1], 0x7e) != -1 {
							continue
						}
						if !try(fr, "enum") {
							return false
						}
					}
					// checksum steered to 7D through the serial's low byte: raw, escaped, wrong and invalid tails
					raw2 := append([]byte(nil), raw...)
					lo := hdrLen - 1
					if s.Fragmented {
						lo = hdrLen - 5
					}
					raw2[lo] ^= c ^ 0x7d
					hdr2 := ref.Escape(raw2[:hdrLen])
					hdr2 = hdr2[:len(hdr2)-1]
					base2 := append(append([]byte(nil), hdr2...), w...)
					for _, tail := range [][]byte{{0x7d, 0x7e}, {0x7d, 0x01, 0x7e}, {0x7d, 0x02, 0x7e}, {0x7d, 0x03, 0x7e}} {
						fr := append(append([]byte(nil), base2...), tail...)
						if bytes.IndexByte(fr[1:len(fr)-1], 0x7e) != -1 {
							continue
						}
						if !try(fr, "enum_chk7d") {
							return false
						}
					}
				}
			}
			return true
		}
		rec = func(depth int) bool {
			if !visit() {
				return false
			}
			if depth == L {
				return true
			}
			for _, a := range alpha {
				w = append(w, a)
				ok := rec(depth + 1)
				w = w[:len(w)-1]
				if !ok {
					return false
				}
			}
			return true
		}
		if !rec(0) {
			return firstBad, firstErr
		}
		col.SetExhaustive(true, space)
		col.Note(fmt.Sprintf("enumerated all wire strings of length <= %d over {7D,01,02,00,41,FF} x 4 header shapes x declared length 0..%d x checksum tails (this shard: %d frames)", L, K, space))
		return nil, nil
	})
}

// FuzzC02: coverage-guided differential fuzzing of Decode against the reference (thorough tier).
func FuzzC02(f *testing.F) {
	kit.Quiet()
	for _, s := range []string{
		"7e0002000001234567890100008a7e",
		"7e0002400001000000000172998417380000027e",
		"7e0100002c0123456789010000001f0073797a6800007777772e6a74743830382e636f6d0000000000003736353433323101b2e24131323334ca7e",
		"7e000200000123456789017fff0a7e",
		"7e02002000012345678901000100030001000200000000000000000000000000000000000000000000000000000000000000000000000000007e",
	} {
		b, _ := hexDecode(s)
		f.Add(b)
	}
	f.Fuzz(func(t *testing.T, data []byte) {
		frame := sanitizeInterior(append([]byte(nil), data...))
		if res := checkC02Frame(frame, "fuzz"); res.Err != nil {
			kit.FuzzReport("TestC02", c02Case{Frame: frame, Origin: "fuzz"}, res.Err)
			t.Fatalf("%v", res.Err)
		}
	})
}
