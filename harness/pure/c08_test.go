package pure

import (
	"bytes"
	"encoding/binary"
	"fmt"
	"reflect"
	"testing"

	"verif/harness/kit"
	"verif/harness/ref"

	"github.com/cuteLittleDevil/go-jt808/protocol/jt808"
	"github.com/cuteLittleDevil/go-jt808/protocol/model"
	"github.com/cuteLittleDevil/go-jt808/shared/consts"
	"pgregory.net/rapid"
)

// C08: location reports are decoded as the standard prescribes.

type locBlock struct {
	Base  kit.Hex `json:"base28"`
	Items kit.Hex `json:"items_tlv"`
}

type c08Case struct {
	Carrier string     `json:"carrier"` // "0200" | "0704" | "0801"
	Blocks  []locBlock `json:"blocks"`
	V2019   bool       `json:"header_2019"`
	// Reassembled: the body arrives the way the service hands over a sub-packaged upload - the message object of the
	// last packet (fragment bit, package k of k in the header) with Body replaced by the concatenation
	Reassembled int `json:"reassembled_from_packets,omitempty"`
}

var stdIDs = []byte{0x01, 0x02, 0x03, 0x04, 0x05, 0x06, 0x11, 0x12, 0x13, 0x25, 0x2a, 0x2b, 0x30, 0x31}

func genFlagWord(t *rapid.T, label string) uint32 {
	switch rapid.IntRange(0, 5).Draw(t, label+"_k") {
	case 0:
		return 0
	case 1:
		return 1 << rapid.IntRange(0, 31).Draw(t, label+"_bit")
	case 2:
		return 1<<rapid.IntRange(0, 31).Draw(t, label+"_b1") | 1<<rapid.IntRange(0, 31).Draw(t, label+"_b2")
	case 3:
		return ^uint32(1 << rapid.IntRange(0, 31).Draw(t, label+"_nbit"))
	default:
		return rapid.Uint32().Draw(t, label)
	}
}

func genBase(t *rapid.T, label string) []byte {
	b := make([]byte, 28)
	binary.BigEndian.PutUint32(b[0:], genFlagWord(t, label+"_alarm"))
	binary.BigEndian.PutUint32(b[4:], genFlagWord(t, label+"_status"))
	binary.BigEndian.PutUint32(b[8:], genU32(t, label+"_lat"))
	binary.BigEndian.PutUint32(b[12:], genU32(t, label+"_lon"))
	binary.BigEndian.PutUint16(b[16:], genU16(t, label+"_alt"))
	binary.BigEndian.PutUint16(b[18:], genU16(t, label+"_spd"))
	binary.BigEndian.PutUint16(b[20:], genU16(t, label+"_dir"))
	copy(b[22:], genPhoneBCD(t, 6, label+"_time"))
	return b
}

func genItems(t *rapid.T, label string, maxItems int, allowBad bool) []byte {
	var out []byte
	n := rapid.IntRange(0, maxItems).Draw(t, label+"_n")
	for i := 0; i < n; i++ {
		var id byte
		switch rapid.IntRange(0, 9).Draw(t, label+"_idk") {
		case 0:
			id = rapid.SampledFrom([]byte{0x07, 0x0f, 0x14, 0x24, 0x32, 0x33, 0x64, 0x65, 0xe0, 0xeb, 0xff, 0x00}).Draw(t, label+"_unk")
		case 1:
			id = rapid.Byte().Draw(t, label+"_anyid")
		default:
			id = rapid.SampledFrom(stdIDs).Draw(t, label+"_std")
		}
		ln := rapid.IntRange(0, 12).Draw(t, label+"_len")
		if rapid.IntRange(0, 15).Draw(t, label+"_longitem") == 0 {
			ln = rapid.SampledFrom([]int{127, 128, 200, 253, 254, 255}).Draw(t, label+"_longlen")
		}
		if ls, ok := ref.ItemLengths[id]; ok {
			ln = ls[rapid.IntRange(0, len(ls)-1).Draw(t, label+"_lsel")]
			if allowBad && rapid.IntRange(0, 11).Draw(t, label+"_bad") == 0 {
				ln = max(0, ln+rapid.SampledFrom([]int{-1, 1, -ln, 2, 3}).Draw(t, label+"_delta"))
			}
		}
		content := rapid.SliceOfN(rapid.Byte(), ln, ln).Draw(t, label+"_content")
		if (id == 0x25 || id == 0x2a) && ln >= 2 && rapid.Bool().Draw(t, label+"_sparse") {
			for k := range content {
				content[k] = 0
			}
			content[ln-1-rapid.IntRange(0, 1).Draw(t, label+"_byte")] = 1 << rapid.IntRange(0, 7).Draw(t, label+"_bit")
		}
		if id == 0x11 && ln >= 1 && rapid.Bool().Draw(t, label+"_type") {
			content[0] = byte(rapid.IntRange(0, 4).Draw(t, label+"_loctype"))
		}
		out = append(out, id, byte(ln))
		out = append(out, content...)
	}
	if allowBad && rapid.IntRange(0, 19).Draw(t, label+"_trunc") == 0 && len(out) > 0 {
		out = out[:rapid.IntRange(1, len(out)-1+1).Draw(t, label+"_cut")-0]
		if len(out) > 0 && rapid.Bool().Draw(t, label+"_lone") {
			out = append(out, 0x01)
		}
	}
	return out
}

func genC08(t *rapid.T) c08Case {
	c := c08Case{Carrier: rapid.SampledFrom([]string{"0200", "0200", "0704", "0801"}).Draw(t, "carrier"), V2019: rapid.Bool().Draw(t, "hdr2019")}
	if rapid.IntRange(0, 3).Draw(t, "reassembled") == 0 {
		c.Reassembled = rapid.IntRange(2, 9).Draw(t, "packets")
	}
	n := 1
	if c.Carrier == "0704" {
		n = rapid.IntRange(1, 5).Draw(t, "blocks")
	}
	for i := 0; i < n; i++ {
		b := locBlock{Base: genBase(t, "base")}
		if c.Carrier != "0801" {
			b.Items = genItems(t, "items", 12, true)
		}
		c.Blocks = append(c.Blocks, b)
	}
	return c
}

// checkFlags compares every bool field named in table with the bit of word.
func checkFlags(prefix string, v reflect.Value, table map[string]int, word uint32, errs *[]string) {
	seen := 0
	for name, bit := range table {
		f := v.FieldByName(name)
		if !f.IsValid() || f.Kind() != reflect.Bool {
			*errs = append(*errs, fmt.Sprintf("%s.%s: field missing", prefix, name))
			continue
		}
		seen++
		want := word>>uint(bit)&1 == 1
		if f.Bool() != want {
			*errs = append(*errs, fmt.Sprintf("%s.%s=%v but bit %d of %#08x is %v", prefix, name, f.Bool(), bit, word, want))
		}
	}
}

func checkBase(prefix string, base []byte, got model.T0x0200LocationItem, errs *[]string) {
	chk := func(name string, g, w any) {
		if fmt.Sprint(g) != fmt.Sprint(w) {
			*errs = append(*errs, fmt.Sprintf("%s.%s=%v want %v", prefix, name, g, w))
		}
	}
	chk("AlarmSign", got.AlarmSign, ref.BE32(base[0:]))
	chk("StatusSign", got.StatusSign, ref.BE32(base[4:]))
	chk("Latitude", got.Latitude, ref.BE32(base[8:]))
	chk("Longitude", got.Longitude, ref.BE32(base[12:]))
	chk("Altitude", got.Altitude, ref.BE16(base[16:]))
	chk("Speed", got.Speed, ref.BE16(base[18:]))
	chk("Direction", got.Direction, ref.BE16(base[20:]))
	chk("DateTime", got.DateTime, ref.BCDTime(base[22:28]))
	checkFlags(prefix+".AlarmSignDetails", reflect.ValueOf(got.AlarmSignDetails), ref.AlarmBits, ref.BE32(base[0:]), errs)
	checkFlags(prefix+".StatusSignDetails", reflect.ValueOf(got.StatusSignDetails), ref.StatusBits, ref.BE32(base[4:]), errs)
}

// itemMatches reports whether the decoded addition equals the standard reading of content.
func itemMatches(id byte, content []byte, a model.Addition, stripped *[]string) (bool, string) {
	if a.ID != id || int(a.Len) != len(content) {
		return false, fmt.Sprintf("ID/Len=%#x/%d want %#x/%d", a.ID, a.Len, id, len(content))
	}
	c := a.Content
	neq := func(name string, g, w any) (bool, string) {
		return false, fmt.Sprintf("%s=%v want %v (content %x)", name, g, w, content)
	}
	switch id {
	case 0x01:
		if c.Mile != ref.BE32(content) {
			return neq("Mile", c.Mile, ref.BE32(content))
		}
	case 0x02:
		if c.Oil != ref.BE16(content) {
			return neq("Oil", c.Oil, ref.BE16(content))
		}
	case 0x03:
		if c.Speed != ref.BE16(content) {
			return neq("Speed", c.Speed, ref.BE16(content))
		}
	case 0x04:
		if c.ManualAlarm != ref.BE16(content) {
			return neq("ManualAlarm", c.ManualAlarm, ref.BE16(content))
		}
	case 0x05:
		for k, b := range content {
			if b >= 1 && b <= 254 {
				if g, ok := c.TirePressure.Values[uint8(k)]; !ok || g != b {
					return neq(fmt.Sprintf("TirePressure[%d]", k), g, b)
				}
			}
		}
		for k, g := range c.TirePressure.Values {
			if int(k) >= len(content) || (content[k] != g) {
				return neq(fmt.Sprintf("TirePressure[%d] (spurious)", k), g, "absent or equal to the byte")
			}
		}
	case 0x06:
		if c.CarTemperature != ref.BE16(content) {
			return neq("CarTemperature", c.CarTemperature, ref.BE16(content))
		}
	case 0x11:
		if c.OverSpeedAlarm.LocationType != content[0] {
			return neq("OverSpeedAlarm.LocationType", c.OverSpeedAlarm.LocationType, content[0])
		}
		if len(content) == 5 {
			if kit.Known("C08-item11-areaid") {
				*stripped = append(*stripped, "C08-item11-areaid")
			} else if content[0] != 0 && c.OverSpeedAlarm.AreaID != ref.BE32(content[1:]) {
				return neq("OverSpeedAlarm.AreaID", c.OverSpeedAlarm.AreaID, ref.BE32(content[1:]))
			}
		}
	case 0x12:
		if c.AreaAlarm.LocationType != content[0] || c.AreaAlarm.AreaID != ref.BE32(content[1:]) || c.AreaAlarm.Direction != content[5] {
			return neq("AreaAlarm", c.AreaAlarm, fmt.Sprintf("{%d %d %d}", content[0], ref.BE32(content[1:]), content[5]))
		}
	case 0x13:
		d := c.DrivingTimeInsufficientAlarm
		if d.RoadSectionID != ref.BE32(content) || d.RoadSectionDrivingTimeSecond != ref.BE16(content[4:]) || d.Result != content[6] {
			return neq("DrivingTimeInsufficientAlarm", d, fmt.Sprintf("{%d %d %d}", ref.BE32(content), ref.BE16(content[4:]), content[6]))
		}
	case 0x25:
		w := ref.BE32(content)
		if c.ExtendVehicleStatus.Value != w {
			return neq("ExtendVehicleStatus.Value", c.ExtendVehicleStatus.Value, w)
		}
		var errs []string
		checkFlags("ExtendVehicleStatus", reflect.ValueOf(c.ExtendVehicleStatus), ref.ExtSignalBits, w, &errs)
		if len(errs) > 0 {
			return false, errs[0]
		}
	case 0x2a:
		w := ref.BE16(content)
		if c.IOStatus.Value != w {
			return neq("IOStatus.Value", c.IOStatus.Value, w)
		}
		var errs []string
		checkFlags("IOStatus", reflect.ValueOf(c.IOStatus), ref.IOBits, uint32(w), &errs)
		if len(errs) > 0 {
			return false, errs[0]
		}
	case 0x2b:
		if c.Analog != ref.BE32(content) {
			return neq("Analog", c.Analog, ref.BE32(content))
		}
	case 0x30:
		if c.WIFISignalStrength != content[0] {
			return neq("WIFISignalStrength", c.WIFISignalStrength, content[0])
		}
	case 0x31:
		if c.GNSSPositionNum != content[0] {
			return neq("GNSSPositionNum", c.GNSSPositionNum, content[0])
		}
	default:
		if !bytes.Equal(c.Data, content) {
			return neq("Data (unknown item must be kept verbatim)", fmt.Sprintf("%x", c.Data), fmt.Sprintf("%x", content))
		}
	}
	return true, ""
}

func checkItems(prefix string, tlv []byte, got map[consts.JT808LocationAdditionType]model.Addition, errs *[]string, stripped *[]string, labels *[]string) {
	items, _ := ref.WalkItems(tlv)
	first := map[byte][]byte{}
	last := map[byte][]byte{}
	for _, it := range items {
		if _, ok := first[it.ID]; !ok {
			first[it.ID] = it.Content
		} else {
			*labels = append(*labels, "duplicate_item")
		}
		last[it.ID] = it.Content
		if _, std := ref.ItemLengths[it.ID]; std {
			*labels = append(*labels, fmt.Sprintf("item_%02x_ok", it.ID))
		} else {
			*labels = append(*labels, "item_unknown")
		}
	}
	if len(got) != len(first) {
		*errs = append(*errs, fmt.Sprintf("%s: %d additions decoded, %d distinct IDs sent", prefix, len(got), len(first)))
		return
	}
	for id, fc := range first {
		a, ok := got[consts.JT808LocationAdditionType(id)]
		if !ok {
			*errs = append(*errs, fmt.Sprintf("%s: item %#02x missing", prefix, id))
			continue
		}
		ok1, why1 := itemMatches(id, fc, a, stripped)
		if ok1 {
			continue
		}
		if ok2, _ := itemMatches(id, last[id], a, stripped); ok2 {
			continue
		}
		*errs = append(*errs, fmt.Sprintf("%s: item %#02x: %s", prefix, id, why1))
	}
}

func (c c08Case) body() []byte {
	switch c.Carrier {
	case "0200":
		return append(append([]byte(nil), c.Blocks[0].Base...), c.Blocks[0].Items...)
	case "0801":
		b := []byte{0, 0, 0, 9, 1, 2, 3, 4}
		b = append(b, c.Blocks[0].Base...)
		return append(b, 0xca, 0xfe)
	default:
		b := []byte{0, byte(len(c.Blocks)), 1}
		for _, bl := range c.Blocks {
			n := len(bl.Base) + len(bl.Items)
			b = append(b, byte(n>>8), byte(n))
			b = append(b, bl.Base...)
			b = append(b, bl.Items...)
		}
		return b
	}
}

func checkC08(c c08Case, _ *kit.Collector) kit.Result {
	res := kit.Result{Labels: []string{"carrier_" + c.Carrier}}
	body := c.body()
	if len(body) > 1023 {
		res.Excluded = "body>1023"
		return res
	}
	wantErr := false
	flagsSet := false
	nItems := 0
	for _, b := range c.Blocks {
		items, ok := ref.WalkItems(b.Items)
		nItems += len(items)
		if !ok {
			wantErr = true
			res.Labels = append(res.Labels, "tlv_truncated")
		}
		for _, it := range items {
			if !ref.LengthOK(it.ID, len(it.Content)) {
				wantErr = true
				res.Labels = append(res.Labels, fmt.Sprintf("item_%02x_badlen", it.ID))
			}
		}
		if ref.BE32(b.Base) != 0 || ref.BE32(b.Base[4:]) != 0 {
			flagsSet = true
		}
	}
	res.NT = flagsSet && (nItems > 0 || c.Carrier == "0801")
	id := map[string]uint16{"0200": 0x0200, "0704": 0x0704, "0801": 0x0801}[c.Carrier]
	msg, err := jtMsg(id, c.V2019, exact(body))
	if err == nil && c.Reassembled >= 2 {
		tail := body[len(body)-min(len(body), 5):]
		sp := ref.Spec{ID: id, Version2019: c.V2019, VersionByte: 1, Serial: 9, Fragmented: true, Total: uint16(c.Reassembled), No: uint16(c.Reassembled), Body: tail,
			PhoneBCD: ref.PhoneBCDFromDigits("13800138000", map[bool]int{false: 6, true: 10}[c.V2019])}
		msg = jt808.NewJTMessage()
		if err = msg.Decode(sp.Build()); err == nil {
			msg.Body = exact(body)
			res.Labels = append(res.Labels, "reassembled_upload")
		}
	}
	if err != nil {
		res.Err = kit.Fail("frame rejected: %v", err)
		return res
	}
	var errs []string
	switch c.Carrier {
	case "0200":
		var v model.T0x0200
		perr := v.Parse(msg)
		if (perr != nil) != wantErr {
			res.Err = kit.Fail("0x0200 body %x: Parse error=%v, but the standard's length table says reject=%v", head(body), perr, wantErr)
			return res
		}
		if perr == nil {
			checkBase("0200", c.Blocks[0].Base, v.T0x0200LocationItem, &errs)
			checkItems("0200", c.Blocks[0].Items, v.Additions, &errs, &res.Stripped, &res.Labels)
		}
	case "0704":
		var v model.T0x0704
		perr := v.Parse(msg)
		if (perr != nil) != wantErr {
			res.Err = kit.Fail("0x0704 body %x: Parse error=%v, but the standard's length table says reject=%v", head(body), perr, wantErr)
			return res
		}
		if perr == nil {
			if len(v.Items) != len(c.Blocks) || int(v.Num) != len(c.Blocks) {
				errs = append(errs, fmt.Sprintf("0704: %d items decoded (Num=%d), %d sent", len(v.Items), v.Num, len(c.Blocks)))
			} else {
				for i, bl := range c.Blocks {
					p := fmt.Sprintf("0704[%d]", i)
					checkBase(p, bl.Base, v.Items[i].T0x0200LocationItem, &errs)
					checkItems(p, bl.Items, v.Items[i].Additions, &errs, &res.Stripped, &res.Labels)
				}
			}
		}
	case "0801":
		var v model.T0x0801
		if perr := v.Parse(msg); perr != nil {
			res.Err = kit.Fail("0x0801 body %x rejected: %v", head(body), perr)
			return res
		}
		checkBase("0801", c.Blocks[0].Base, v.T0x0200LocationItem, &errs)
		if v.MultimediaID != 9 || v.MultimediaType != 1 || v.MultimediaFormatEncode != 2 || v.EventItemEncode != 3 || v.ChannelID != 4 || !bytes.Equal(v.MultimediaPackage, []byte{0xca, 0xfe}) {
			errs = append(errs, "0801: fixed fields / package differ")
		}
	}
	if len(errs) > 0 {
		if len(errs) > 4 {
			errs = errs[:4]
		}
		res.Err = kit.Fail("body %x: %v", head(body), errs)
	}
	return res
}

func TestC08(t *testing.T) {
	kit.Run(t, kit.Prop[c08Case]{ID: "C08", Part: "TestC08", Gen: genC08, Check: checkC08})
}

// TestC08Enum: every single bit and every pair (thorough: every triple and their complements) of the alarm,
// status, extended-signal and IO words; every (id, length) with id 0..0x40 and length 0..32.
func TestC08Enum(t *testing.T) {
	kit.Enum(t, "C08", "TestC08Enum", "TestC08", func(col *kit.Collector) (any, error) {
		var space int64
		run := func(c c08Case) (any, error) {
			res := checkC08(c, col)
			res.NT = true
			space++
			col.RecordHash(kit.HashJSON(c), res, func() any { return c })
			if res.Err != nil {
				return c, res.Err
			}
			return nil, nil
		}
		var words []uint32
		words = append(words, 0, 0xffffffff)
		for i := 0; i < 32; i++ {
			words = append(words, 1<<i, ^uint32(1<<i))
			for j := i + 1; j < 32; j++ {
				words = append(words, 1<<i|1<<j)
				if kit.Thorough() {
					words = append(words, ^uint32(1<<i|1<<j))
					for k := j + 1; k < 32; k++ {
						words = append(words, 1<<i|1<<j|1<<k)
					}
				}
			}
		}
		for _, w := range words {
			for pos := 0; pos < 2; pos++ {
				base := make([]byte, 28)
				binary.BigEndian.PutUint32(base[pos*4:], w)
				copy(base[22:], []byte{0x24, 0x10, 0x01, 0x23, 0x59, 0x59})
				for _, carrier := range []string{"0200", "0704", "0801"} {
					if bad, err := run(c08Case{Carrier: carrier, Blocks: []locBlock{{Base: base}}}); err != nil {
						return bad, err
					}
				}
			}
			// extended vehicle signal word (0x25) and IO word (0x2A)
			base := make([]byte, 28)
			it := []byte{0x25, 4, byte(w >> 24), byte(w >> 16), byte(w >> 8), byte(w), 0x2a, 2, byte(w >> 8), byte(w)}
			if bad, err := run(c08Case{Carrier: "0200", Blocks: []locBlock{{Base: base, Items: it}}}); err != nil {
				return bad, err
			}
		}
		for id := 0; id <= 0x40; id++ {
			for ln := 0; ln <= 32; ln++ {
				content := make([]byte, ln)
				for k := range content {
					content[k] = byte(0x11 * (k + 1))
				}
				it := append([]byte{byte(id), byte(ln)}, content...)
				for _, carrier := range []string{"0200", "0704"} {
					if bad, err := run(c08Case{Carrier: carrier, Blocks: []locBlock{{Base: make([]byte, 28), Items: it}}}); err != nil {
						return bad, err
					}
				}
			}
		}
		col.SetExhaustive(true, space)
		return nil, nil
	})
}
