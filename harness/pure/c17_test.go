package pure

import (
	"bytes"
	"errors"
	"fmt"
	"testing"

	"verif/harness/kit"
	"verif/harness/ref"

	"github.com/cuteLittleDevil/go-jt808/protocol/jt1078"
	"pgregory.net/rapid"
)

// C17: JT1078 RTP packets are decoded as the standard prescribes.

type rtpCase struct {
	V, P, X, CC uint8
	M, PT       uint8
	Seq         uint16
	Sim         kit.Hex
	Channel     uint8
	DataType    uint8
	Mark        uint8
	Timestamp   uint64
	LastI       uint16
	LastFrame   uint16
	Payload     kit.Hex
}

func (r rtpCase) ref() ref.RTP {
	x := ref.RTP{V: r.V, P: r.P, X: r.X, CC: r.CC, M: r.M, PT: r.PT, Seq: r.Seq, Channel: r.Channel, DataType: r.DataType,
		Mark: r.Mark, Timestamp: r.Timestamp, LastI: r.LastI, LastFrame: r.LastFrame, Payload: r.Payload}
	copy(x.SimBCD[:], r.Sim)
	return x
}

type c17Case struct {
	Packets []rtpCase `json:"packets"`
	Cut     int       `json:"cut"`   // -1: whole stream; else the stream is truncated to this many bytes
	Junk    kit.Hex   `json:"junk"`  // when non-empty the case is "arbitrary bytes" instead
	Trail   kit.Hex   `json:"trail"` // bytes (not starting a packet) appended after the last packet; must come back as remainder
	// Reuse: one Packet value decodes the whole stream, the way a connection's read loop does; Retry[i] > 0: before
	// packet i is decoded the same value first sees only its first Retry[i] bytes (data still arriving) and must
	// answer "too short" - afterwards the complete packet decodes as if nothing had happened
	Reuse bool  `json:"one_packet_value_for_the_stream,omitempty"`
	Retry []int `json:"first_attempt_sees_only_this_many_bytes,omitempty"`
}

func genRTP(t *rapid.T) rtpCase {
	r := rtpCase{}
	r.V = uint8(rapid.IntRange(0, 3).Draw(t, "V"))
	r.P = uint8(rapid.IntRange(0, 1).Draw(t, "P"))
	r.X = uint8(rapid.IntRange(0, 1).Draw(t, "X"))
	r.CC = uint8(rapid.IntRange(0, 15).Draw(t, "CC"))
	r.M = uint8(rapid.IntRange(0, 1).Draw(t, "M"))
	r.PT = uint8(rapid.IntRange(0, 127).Draw(t, "PT"))
	r.Seq = genU16(t, "seq")
	r.Sim = genPhoneBCD(t, 6, "sim")
	r.Channel = rapid.Byte().Draw(t, "chan")
	r.DataType = uint8(rapid.IntRange(0, 15).Draw(t, "dt"))
	if rapid.Bool().Draw(t, "dt_common") {
		r.DataType = uint8(rapid.IntRange(0, 4).Draw(t, "dt5"))
	}
	r.Mark = uint8(rapid.IntRange(0, 15).Draw(t, "mark"))
	r.Timestamp = rapid.Uint64().Draw(t, "ts")
	r.LastI = genU16(t, "li")
	r.LastFrame = genU16(t, "lf")
	n := 0
	switch rapid.IntRange(0, 9).Draw(t, "plk") {
	case 0:
		n = rapid.SampledFrom([]int{0, 1, 949, 950, 951, 65535, 4096}).Draw(t, "pl_edge")
	case 1, 2:
		n = rapid.IntRange(0, 950).Draw(t, "pl")
	default:
		n = rapid.IntRange(0, 40).Draw(t, "pl_small")
	}
	if n > 2000 {
		r.Payload = bytes.Repeat([]byte{rapid.Byte().Draw(t, "fill")}, n)
	} else {
		r.Payload = genBytes(t, n, "payload")
		if n >= 4 && rapid.IntRange(0, 3).Draw(t, "marker_in_payload") == 0 {
			copy(r.Payload, "01cd")
		}
	}
	return r
}

func genC17(t *rapid.T) c17Case {
	c := c17Case{Cut: -1}
	kind := rapid.IntRange(0, 9).Draw(t, "kind")
	if kind == 0 {
		n := rapid.IntRange(0, 64).Draw(t, "junk_n")
		c.Junk = rapid.SliceOfN(rapid.Byte(), n, n).Draw(t, "junk")
		if n >= 4 && rapid.Bool().Draw(t, "junk_marker_prefix") {
			copy(c.Junk, []byte{0x30, 0x31, 0x63})
			c.Junk[3] = rapid.SampledFrom([]byte{0x65, 0x63, 0x00}).Draw(t, "junk_b3")
		}
		if len(c.Junk) == 0 {
			c.Junk = kit.Hex{0}
		}
		return c
	}
	n := rapid.IntRange(1, 8).Draw(t, "n")
	total := 0
	c.Reuse = rapid.Bool().Draw(t, "reuse")
	for i := 0; i < n; i++ {
		p := genRTP(t)
		c.Packets = append(c.Packets, p)
		size := p.ref().HeaderLen() + len(p.Payload)
		total += size
		retry := 0
		if c.Reuse && rapid.IntRange(0, 2).Draw(t, "retry") == 0 {
			if retry = rapid.IntRange(1, size-1).Draw(t, "retry_at"); rapid.Bool().Draw(t, "retry_in_header") {
				retry = rapid.IntRange(16, max(16, p.ref().HeaderLen()-1)).Draw(t, "retry_hdr")
			}
			if retry >= size {
				retry = size - 1
			}
		}
		c.Retry = append(c.Retry, retry)
	}
	if kind <= 3 {
		c.Cut = rapid.IntRange(0, total-1).Draw(t, "cut")
		if rapid.Bool().Draw(t, "cut_in_last_header") {
			last := c.Packets[n-1].ref()
			start := total - last.HeaderLen() - len(last.Payload)
			c.Cut = start + rapid.IntRange(0, last.HeaderLen()-1).Draw(t, "cut_hdr")
		}
	} else if kind == 4 {
		k := rapid.IntRange(1, 15).Draw(t, "trail_n")
		c.Trail = rapid.SliceOfN(rapid.Byte(), k, k).Draw(t, "trail")
	}
	return c
}

func checkC17(c c17Case, _ *kit.Collector) kit.Result {
	res := kit.Result{}
	if len(c.Junk) > 0 {
		data := append([]byte(nil), c.Junk...)
		p := jt1078.NewPacket()
		_, err := p.Decode(data)
		isMarker := len(data) >= 4 && string(data[:4]) == "01cd"
		switch {
		case len(data) < 16:
			res.Labels = []string{"junk_short"}
			if isMarker || len(data) < 4 { // too short to hold even the fixed prefix: must not be a packet
				if err == nil {
					res.Err = kit.Fail("%d arbitrary bytes %x decoded as a packet", len(data), data)
				}
			} else if err == nil {
				res.Err = kit.Fail("%d arbitrary bytes %x decoded as a packet", len(data), data)
			}
		case !isMarker:
			res.Labels = []string{"junk_unqualified"}
			res.NT = true
			if !errors.Is(err, jt1078.ErrUnqualifiedData) {
				res.Err = kit.Fail("%d bytes not starting with 30316364 (%x...) gave err=%v, want ErrUnqualifiedData", len(data), data[:4], err)
			}
		default:
			res.Labels = []string{"junk_marker"}
		}
		return res
	}
	var stream []byte
	var ends []int
	for _, p := range c.Packets {
		stream = append(stream, p.ref().Bytes()...)
		ends = append(ends, len(stream))
	}
	full := len(stream)
	stream = append(stream, c.Trail...)
	if c.Cut >= 0 && c.Cut < len(stream) {
		stream = stream[:c.Cut]
	}
	data := make([]byte, len(stream)) // exact capacity
	copy(data, stream)
	rest := data
	consumed := 0
	hdrLens := map[int]bool{}
	shared := jt1078.NewPacket()
	if c.Reuse {
		res.Labels = append(res.Labels, "one_packet_value_for_the_stream")
	}
	for i, pc := range c.Packets {
		want := pc.ref()
		hdrLens[want.HeaderLen()] = true
		p := jt1078.NewPacket()
		if c.Reuse {
			p = shared
			if i < len(c.Retry) && c.Retry[i] > 0 && c.Retry[i] < len(rest) && ends[i] <= len(data) {
				part := make([]byte, c.Retry[i])
				copy(part, rest)
				if _, e := p.Decode(part); !errors.Is(e, jt1078.ErrHeaderLength2Short) && !errors.Is(e, jt1078.ErrBodyLength2Short) {
					res.Err = kit.Fail("packet %d (type %d): its first %d of %d bytes alone gave err=%v, want a too-short error", i, want.DataType, c.Retry[i], want.HeaderLen()+len(want.Payload), e)
					return res
				}
				res.Labels = append(res.Labels, "retry_after_too_short")
			}
		}
		remain, err := p.Decode(rest)
		if ends[i] > len(data) { // this packet is truncated
			start := 0
			if i > 0 {
				start = ends[i-1]
			}
			have := len(data) - start
			kind := "cut_in_payload"
			if have < want.HeaderLen() {
				kind = "cut_in_header"
			}
			res.Labels = append(res.Labels, kind, fmt.Sprintf("cut_dt%d", want.DataType))
			res.NT = res.NT || kind == "cut_in_header"
			if err == nil {
				res.Err = kit.Fail("packet %d (type %d) has only %d of %d bytes but decoded as a packet with %d body bytes", i, want.DataType, have, want.HeaderLen()+len(want.Payload), len(p.Body))
				return res
			}
			if have < want.HeaderLen() {
				if !errors.Is(err, jt1078.ErrHeaderLength2Short) {
					res.Err = kit.Fail("packet %d (type %d) cut inside its %d-byte header (%d bytes present): err=%v, want ErrHeaderLength2Short", i, want.DataType, want.HeaderLen(), have, err)
					return res
				}
			} else if !errors.Is(err, jt1078.ErrBodyLength2Short) {
				res.Err = kit.Fail("packet %d (type %d) cut inside its payload: err=%v, want ErrBodyLength2Short", i, want.DataType, err)
				return res
			}
			return res
		}
		if err != nil {
			res.Err = kit.Fail("packet %d (type %d, %d payload bytes) rejected: %v", i, want.DataType, len(want.Payload), err)
			return res
		}
		var errs []string
		chk := func(name string, got, w any) {
			if fmt.Sprint(got) != fmt.Sprint(w) {
				errs = append(errs, fmt.Sprintf("%s=%v want %v", name, got, w))
			}
		}
		chk("ID", p.ID, "01cd")
		chk("V", p.Flag.V, want.V)
		chk("P", p.Flag.P, want.P)
		chk("X", p.Flag.X, want.X)
		chk("CC", p.Flag.CC, want.CC)
		chk("M", p.Flag.M, want.M)
		chk("PT", uint8(p.Flag.PT), want.PT)
		chk("Seq", p.Seq, want.Seq)
		if ref.StripZeros(p.Sim) != ref.StripZeros(ref.PhoneDigits(want.SimBCD[:])) || p.Sim == "" {
			errs = append(errs, fmt.Sprintf("Sim=%q want %q", p.Sim, ref.PhoneDigits(want.SimBCD[:])))
		}
		chk("LogicChannel", p.LogicChannel, want.Channel)
		chk("DataType", uint8(p.DataType), want.DataType)
		chk("SubcontractType", uint8(p.SubcontractType), want.Mark)
		if want.HasTimestamp() {
			chk("Timestamp", p.Timestamp, want.Timestamp)
		} else {
			chk("Timestamp(absent)", p.Timestamp, 0)
		}
		if want.HasIntervals() {
			chk("LastIFrameInterval", p.LastIFrameInterval, want.LastI)
			chk("LastFrameInterval", p.LastFrameInterval, want.LastFrame)
		} else {
			chk("LastIFrameInterval(absent)", p.LastIFrameInterval, 0)
			chk("LastFrameInterval(absent)", p.LastFrameInterval, 0)
		}
		chk("DataBodyLen", int(p.DataBodyLen), len(want.Payload))
		if !bytes.Equal(p.Body, want.Payload) {
			errs = append(errs, fmt.Sprintf("Body differs (%d bytes, want %d)", len(p.Body), len(want.Payload)))
		}
		consumed = ends[i]
		if !bytes.Equal(remain, data[consumed:]) {
			errs = append(errs, fmt.Sprintf("remainder has %d bytes, want the %d bytes after the packet unchanged", len(remain), len(data)-consumed))
		}
		if len(errs) > 0 {
			res.Err = kit.Fail("packet %d of %d (type %d mark %d): %v", i, len(c.Packets), want.DataType, want.Mark, errs)
			return res
		}
		res.Labels = append(res.Labels, fmt.Sprintf("dt%d", want.DataType))
		rest = remain
	}
	if !bytes.Equal(data, stream) {
		res.Err = kit.Fail("Decode modified its input")
		return res
	}
	_ = full
	if len(c.Trail) > 0 {
		res.Labels = append(res.Labels, "trailing_bytes")
	}
	if len(c.Packets) >= 2 {
		res.Labels = append(res.Labels, "multi")
	}
	res.NT = res.NT || (len(c.Packets) >= 2 && len(hdrLens) >= 2)
	return res
}

func TestC17(t *testing.T) {
	kit.Run(t, kit.Prop[c17Case]{ID: "C17", Part: "TestC17", Gen: genC17, Check: checkC17})
}

// TestC17Enum: every truncation length of one packet of each of the 16 data types x all 16 marks (exhaustive).
func TestC17Enum(t *testing.T) {
	kit.Enum(t, "C17", "TestC17Enum", "TestC17", func(col *kit.Collector) (any, error) {
		var space int64
		for dt := 0; dt < 16; dt++ {
			for mark := 0; mark < 16; mark++ {
				p := rtpCase{V: 2, CC: 1, M: 1, PT: 98, Seq: 0x1234, Sim: kit.Hex{0x01, 0x38, 0x00, 0x13, 0x80, 0x00}, Channel: 1,
					DataType: uint8(dt), Mark: uint8(mark), Timestamp: 0x0102030405060708, LastI: 0x1122, LastFrame: 0x3344, Payload: kit.Hex{0xde, 0xad, 0xbe, 0xef, 0x30, 0x31, 0x63, 0x64}}
				q := p
				q.DataType = uint8((dt + 3) % 16)
				total := p.ref().HeaderLen() + len(p.Payload)
				for cut := -1; cut < total; cut++ {
					c := c17Case{Packets: []rtpCase{q, p}, Cut: -1}
					if cut >= 0 {
						c.Cut = q.ref().HeaderLen() + len(q.Payload) + cut
					}
					res := checkC17(c, col)
					res.NT = true
					space++
					col.RecordHash(kit.HashJSON(c), res, func() any { return c })
					if res.Err != nil {
						return c, res.Err
					}
				}
			}
		}
		col.SetExhaustive(true, space)
		return nil, nil
	})
}

// c17wCase: an arbitrary byte string decoded step by step and compared with an independent walker.
type c17wCase struct {
	Data kit.Hex `json:"data"`
}

func checkC17Walk(c c17wCase, _ *kit.Collector) kit.Result {
	res := kit.Result{}
	rest := append([]byte(nil), c.Data...)
	packets := 0
	for steps := 0; steps < 64 && len(rest) > 0; steps++ {
		exp, n, verdict := walkRTP(rest)
		p := jt1078.NewPacket()
		remain, err := p.Decode(rest)
		switch verdict {
		case "ok":
			if err != nil {
				res.Err = kit.Fail("reference sees a complete packet (type %d) but Decode says %v", exp.DataType, err)
				return res
			}
			if !bytes.Equal(p.Body, exp.Payload) || !bytes.Equal(remain, rest[n:]) || p.Seq != exp.Seq || uint8(p.DataType) != exp.DataType ||
				(exp.HasTimestamp() && p.Timestamp != exp.Timestamp) || (exp.HasIntervals() && (p.LastIFrameInterval != exp.LastI || p.LastFrameInterval != exp.LastFrame)) {
				res.Err = kit.Fail("decoded packet differs from the reference reading of %x", head(rest))
				return res
			}
			packets++
			rest = remain
			continue
		case "short_header":
			if !errors.Is(err, jt1078.ErrHeaderLength2Short) {
				res.Err = kit.Fail("want ErrHeaderLength2Short, got %v for %x", err, head(rest))
			}
		case "short_body":
			if !errors.Is(err, jt1078.ErrBodyLength2Short) {
				res.Err = kit.Fail("want ErrBodyLength2Short, got %v for %x", err, head(rest))
			}
		case "unqualified":
			if !errors.Is(err, jt1078.ErrUnqualifiedData) {
				res.Err = kit.Fail("want ErrUnqualifiedData, got %v for %x", err, head(rest))
			}
		}
		res.Labels = append(res.Labels, "walk_"+verdict)
		break
	}
	res.Labels = append(res.Labels, fmt.Sprintf("walk_packets_%s", bucketN(packets)))
	res.NT = packets >= 1
	return res
}

func genC17Walk(t *rapid.T) c17wCase {
	var b []byte
	n := rapid.IntRange(0, 4).Draw(t, "n")
	for i := 0; i < n; i++ {
		b = append(b, genRTP(t).ref().Bytes()...)
	}
	switch rapid.IntRange(0, 3).Draw(t, "mut") {
	case 0:
	case 1:
		if len(b) > 0 {
			b[rapid.IntRange(0, len(b)-1).Draw(t, "pos")] ^= 1 << rapid.IntRange(0, 7).Draw(t, "bit")
		}
	case 2:
		if len(b) > 0 {
			b = b[:rapid.IntRange(0, len(b)-1).Draw(t, "cut")]
		}
	default:
		k := rapid.IntRange(0, 40).Draw(t, "junk")
		b = append(b, rapid.SliceOfN(rapid.Byte(), k, k).Draw(t, "junkb")...)
	}
	return c17wCase{Data: b}
}

func TestC17Walk(t *testing.T) {
	kit.Run(t, kit.Prop[c17wCase]{ID: "C17", Part: "TestC17Walk", Gen: genC17Walk, Check: checkC17Walk})
}

func FuzzC17(f *testing.F) {
	kit.Quiet()
	for dt := 0; dt < 6; dt++ {
		p := rtpCase{V: 2, CC: 1, PT: 98, Sim: kit.Hex{0, 0, 0, 0, 0, 1}, DataType: uint8(dt), Payload: kit.Hex{1, 2, 3}}
		f.Add(append(p.ref().Bytes(), p.ref().Bytes()...))
	}
	f.Fuzz(func(t *testing.T, data []byte) {
		c := c17wCase{Data: append([]byte(nil), data...)}
		if res := checkC17Walk(c, nil); res.Err != nil {
			kit.FuzzReport("TestC17Walk", c, res.Err)
			t.Fatalf("%v", res.Err)
		}
	})
}

// walkRTP is an independent reading of one packet at the front of b.
func walkRTP(b []byte) (ref.RTP, int, string) {
	var r ref.RTP
	if len(b) < 16 {
		return r, 0, "short_header"
	}
	if string(b[:4]) != "01cd" {
		return r, 0, "unqualified"
	}
	r.Seq = uint16(b[6])<<8 | uint16(b[7])
	r.DataType = b[15] >> 4
	r.Mark = b[15] & 15
	if len(b) < r.HeaderLen() {
		return r, 0, "short_header"
	}
	pos := 16
	if r.HasTimestamp() {
		for i := 0; i < 8; i++ {
			r.Timestamp = r.Timestamp<<8 | uint64(b[pos+i])
		}
		pos += 8
	}
	if r.HasIntervals() {
		r.LastI = uint16(b[pos])<<8 | uint16(b[pos+1])
		r.LastFrame = uint16(b[pos+2])<<8 | uint16(b[pos+3])
		pos += 4
	}
	n := int(b[pos])<<8 | int(b[pos+1])
	pos += 2
	if len(b) < pos+n {
		return r, 0, "short_body"
	}
	r.Payload = b[pos : pos+n]
	return r, pos + n, "ok"
}
