package pure

import (
	"encoding/json"
	"fmt"
	"reflect"
	"strconv"
	"strings"

	"verif/harness/kit"
	"verif/harness/ref"

	"github.com/cuteLittleDevil/go-jt808/protocol/jt808"
	"github.com/cuteLittleDevil/go-jt808/protocol/model"
	"github.com/cuteLittleDevil/go-jt808/shared/consts"
	"pgregory.net/rapid"
)

// handler is what every model type offers.
type handler interface {
	Parse(*jt808.JTMessage) error
	Encode() []byte
	String() string
	Protocol() consts.JT808CommandType
}

// newModel creates a fresh receiver by type name; dialect only matters for the active-safety types.
func newModel(name string, dialect int) handler {
	as := consts.ActiveSafetyType(dialect)
	switch name {
	case "T0x0001":
		return &model.T0x0001{}
	case "T0x0002":
		return &model.T0x0002{}
	case "T0x0100":
		return &model.T0x0100{}
	case "T0x0102":
		return &model.T0x0102{}
	case "T0x0104":
		return &model.T0x0104{}
	case "T0x0200":
		return &model.T0x0200{}
	case "T0x0704":
		return &model.T0x0704{}
	case "T0x0800":
		return &model.T0x0800{}
	case "T0x0801":
		return &model.T0x0801{}
	case "T0x0805":
		return &model.T0x0805{}
	case "T0x1003":
		return &model.T0x1003{}
	case "T0x1005":
		return &model.T0x1005{}
	case "T0x1205":
		return &model.T0x1205{}
	case "T0x1206":
		return &model.T0x1206{}
	case "T0x1210":
		return &model.T0x1210{P9208AlarmSign: model.P9208AlarmSign{ActiveSafetyType: as}}
	case "T0x1211":
		return &model.T0x1211{}
	case "T0x1212":
		return &model.T0x1212{}
	case "P0x8001":
		return &model.P0x8001{}
	case "P0x8003":
		return &model.P0x8003{}
	case "P0x8100":
		return &model.P0x8100{}
	case "P0x8103":
		return &model.P0x8103{}
	case "P0x8104":
		return &model.P0x8104{}
	case "P0x8800":
		return &model.P0x8800{}
	case "P0x8801":
		return &model.P0x8801{}
	case "P0x9003":
		return &model.P0x9003{}
	case "P0x9101":
		return &model.P0x9101{}
	case "P0x9102":
		return &model.P0x9102{}
	case "P0x9105":
		return &model.P0x9105{}
	case "P0x9201":
		return &model.P0x9201{}
	case "P0x9202":
		return &model.P0x9202{}
	case "P0x9205":
		return &model.P0x9205{}
	case "P0x9206":
		return &model.P0x9206{}
	case "P0x9207":
		return &model.P0x9207{}
	case "P0x9208":
		return &model.P0x9208{P9208AlarmSign: model.P9208AlarmSign{ActiveSafetyType: as}}
	case "P0x9212":
		return &model.P0x9212{}
	}
	return nil
}

var allModelNames = []string{"T0x0001", "T0x0002", "T0x0100", "T0x0102", "T0x0104", "T0x0200", "T0x0704", "T0x0800", "T0x0801", "T0x0805",
	"T0x1003", "T0x1005", "T0x1205", "T0x1206", "T0x1210", "T0x1211", "T0x1212", "P0x8001", "P0x8003", "P0x8100", "P0x8103", "P0x8104",
	"P0x8800", "P0x8801", "P0x9003", "P0x9101", "P0x9102", "P0x9105", "P0x9201", "P0x9202", "P0x9205", "P0x9206", "P0x9207", "P0x9208", "P0x9212"}

func usesDialect(name string) bool { return name == "T0x1210" || name == "P0x9208" }

// jtMsg builds a decoded message carrying body under the given header version, through the real frame decoder.
func jtMsg(id uint16, v2019 bool, body []byte) (*jt808.JTMessage, error) {
	s := ref.Spec{ID: id, Version2019: v2019, VersionByte: 1, Serial: 1, Body: body}
	s.PhoneBCD = ref.PhoneBCDFromDigits("13800138000", map[bool]int{false: 6, true: 10}[v2019])
	m := jt808.NewJTMessage()
	if len(body) > 1023 {
		// reassembled bodies exceed one frame: construct the message the way completePack does (Body replaced)
		s.Body = nil
		if err := m.Decode(s.Build()); err != nil {
			return nil, err
		}
		m.Body = body
		return m, nil
	}
	err := m.Decode(s.Build())
	return m, err
}

// exact returns a copy whose capacity equals its length.
func exact(b []byte) []byte {
	c := make([]byte, len(b))
	copy(c, b)
	return c
}

// ---------- structural comparison (nil == empty; func fields skipped; optional skip of derived fields) ----------

var skipFields = map[string]bool{"AlarmSignDetails": true, "StatusSignDetails": true, "CustomAdditionContentFunc": true, "ParamParseBeforeFunc": true}

func diffValues(path string, a, b reflect.Value, skipDerived bool) string {
	if a.Type() != b.Type() {
		return fmt.Sprintf("%s: type %v vs %v", path, a.Type(), b.Type())
	}
	switch a.Kind() {
	case reflect.Ptr, reflect.Interface:
		if a.IsNil() || b.IsNil() {
			if a.IsNil() != b.IsNil() {
				return fmt.Sprintf("%s: nil-ness differs", path)
			}
			return ""
		}
		return diffValues(path, a.Elem(), b.Elem(), skipDerived)
	case reflect.Struct:
		for i := 0; i < a.NumField(); i++ {
			f := a.Type().Field(i)
			if (skipDerived && skipFields[f.Name]) || a.Field(i).Kind() == reflect.Func {
				continue
			}
			if d := diffValues(path+"."+f.Name, a.Field(i), b.Field(i), skipDerived); d != "" {
				return d
			}
		}
		return ""
	case reflect.Slice, reflect.Array:
		if a.Len() != b.Len() {
			return fmt.Sprintf("%s: length %d vs %d", path, a.Len(), b.Len())
		}
		for i := 0; i < a.Len(); i++ {
			if d := diffValues(fmt.Sprintf("%s[%d]", path, i), a.Index(i), b.Index(i), skipDerived); d != "" {
				return d
			}
		}
		return ""
	case reflect.Map:
		if a.Len() != b.Len() {
			return fmt.Sprintf("%s: map size %d vs %d", path, a.Len(), b.Len())
		}
		for _, k := range a.MapKeys() {
			bv := b.MapIndex(k)
			if !bv.IsValid() {
				return fmt.Sprintf("%s: key %v missing", path, k)
			}
			if d := diffValues(fmt.Sprintf("%s[%v]", path, k), a.MapIndex(k), bv, skipDerived); d != "" {
				return d
			}
		}
		return ""
	case reflect.Func, reflect.Chan, reflect.UnsafePointer:
		return ""
	case reflect.Bool:
		if a.Bool() != b.Bool() {
			return fmt.Sprintf("%s: %v vs %v", path, a.Bool(), b.Bool())
		}
	case reflect.Int, reflect.Int8, reflect.Int16, reflect.Int32, reflect.Int64:
		if a.Int() != b.Int() {
			return fmt.Sprintf("%s: %d vs %d", path, a.Int(), b.Int())
		}
	case reflect.Uint, reflect.Uint8, reflect.Uint16, reflect.Uint32, reflect.Uint64, reflect.Uintptr:
		if a.Uint() != b.Uint() {
			return fmt.Sprintf("%s: %#x vs %#x", path, a.Uint(), b.Uint())
		}
	case reflect.String:
		if a.String() != b.String() {
			return fmt.Sprintf("%s: %q vs %q", path, a.String(), b.String())
		}
	case reflect.Float32, reflect.Float64:
		if a.Float() != b.Float() {
			return fmt.Sprintf("%s: %v vs %v", path, a.Float(), b.Float())
		}
	}
	return ""
}

// diff compares message values ignoring derived flag structs (C07); diffFull compares everything (C03).
func diff(a, b any) string     { return diffValues("", reflect.ValueOf(a), reflect.ValueOf(b), true) }
func diffFull(a, b any) string { return diffValues("", reflect.ValueOf(a), reflect.ValueOf(b), false) }

// ---------- value generators for the two-way types (C07) ----------

const asciiSet = "ABCDEFGHIJKLMNOPQRSTUVWXYZabcdefghijklmnopqrstuvwxyz0123456789 ._-:/@#\t\x01\x7f"

// genStr: string of length lo..hi without NUL at either end (interior NUL only if allowNUL).
func genStr(t *rapid.T, lo, hi int, allowNUL bool, label string) string {
	n := rapid.IntRange(lo, hi).Draw(t, label+"_n")
	b := make([]byte, n)
	for i := range b {
		b[i] = asciiSet[rapid.IntRange(0, len(asciiSet)-1).Draw(t, label+"_c")]
		if allowNUL && i > 0 && i < n-1 && rapid.IntRange(0, 15).Draw(t, label+"_z") == 0 {
			b[i] = 0
		}
	}
	return string(b)
}

var hanzi = []rune("京沪粤苏浙鲁豫川渝测试车牌警学挂港澳领使黑吉辽蒙")

// genGBKText builds GBK-encodable text constructively (ASCII + GB2312 hanzi); returns text and its GBK length.
func genGBKText(t *rapid.T, maxBytes int, label string) string {
	var sb strings.Builder
	used := 0
	n := rapid.IntRange(0, 12).Draw(t, label+"_n")
	long := maxBytes >= 200 && rapid.IntRange(0, 3).Draw(t, label+"_long") == 0
	if long {
		n = rapid.IntRange(80, 127).Draw(t, label+"_nlong") // up to the field's 255 bytes in GBK; more than that in UTF-8
	}
	for i := 0; i < n; i++ {
		if long && rapid.IntRange(0, 9).Draw(t, label+"_hl") != 0 || !long && rapid.IntRange(0, 2).Draw(t, label+"_h") == 0 {
			if used+2 > maxBytes {
				break
			}
			sb.WriteRune(hanzi[rapid.IntRange(0, len(hanzi)-1).Draw(t, label+"_r")])
			used += 2
		} else {
			if used+1 > maxBytes {
				break
			}
			sb.WriteByte("ABCDEFGHJKLMNPQRSTUVWXYZ0123456789"[rapid.IntRange(0, 33).Draw(t, label+"_a")])
			used++
		}
	}
	return sb.String()
}

func genBCDTime(t *rapid.T, label string) string {
	p := func(s string) int { return rapid.IntRange(0, 99).Draw(t, label+"_"+s) }
	if rapid.IntRange(0, 4).Draw(t, label+"_realistic") != 0 {
		return fmt.Sprintf("20%02d-%02d-%02d %02d:%02d:%02d", rapid.IntRange(0, 99).Draw(t, label+"_Y"), rapid.IntRange(1, 12).Draw(t, label+"_M"),
			rapid.IntRange(1, 31).Draw(t, label+"_D"), rapid.IntRange(0, 23).Draw(t, label+"_h"), rapid.IntRange(0, 59).Draw(t, label+"_m"), rapid.IntRange(0, 59).Draw(t, label+"_s"))
	}
	return fmt.Sprintf("20%02d-%02d-%02d %02d:%02d:%02d", p("Y"), p("M"), p("D"), p("h"), p("m"), p("s"))
}

func genU32(t *rapid.T, label string) uint32 {
	if rapid.IntRange(0, 7).Draw(t, label+"_k") == 0 {
		return rapid.SampledFrom([]uint32{0, 1, 0x7e, 0x7d7e7d7e, 0xffffffff, 0x80000000, 0x01020304}).Draw(t, label)
	}
	return rapid.Uint32().Draw(t, label)
}

func genLocationItem(t *rapid.T, label string) model.T0x0200LocationItem {
	return model.T0x0200LocationItem{AlarmSign: genU32(t, label+"_alarm"), StatusSign: genU32(t, label+"_status"), Latitude: genU32(t, label+"_lat"),
		Longitude: genU32(t, label+"_lon"), Altitude: genU16(t, label+"_alt"), Speed: genU16(t, label+"_spd"), Direction: genU16(t, label+"_dir"),
		DateTime: genBCDTime(t, label+"_time")}
}

func listLen(t *rapid.T, max int, label string) int {
	switch rapid.IntRange(0, 9).Draw(t, label+"_k") {
	case 0:
		return 0
	case 1:
		return max
	case 2, 3:
		return rapid.IntRange(0, max).Draw(t, label)
	default:
		return rapid.IntRange(1, min(max, 4)).Draw(t, label+"_small")
	}
}

var dialectReserve = map[int]int{1: 1, 2: 0, 3: 2, 4: 17, 5: 1} // sign length - terminal id length - 8
var dialectIDLen = map[int]int{1: 7, 2: 30, 3: 30, 4: 7, 5: 30}

func genAlarmSign(t *rapid.T, dialect int, label string) model.P9208AlarmSign {
	n := dialectReserve[dialect]
	return model.P9208AlarmSign{TerminalID: genStr(t, 0, dialectIDLen[dialect], true, label+"_tid"), Time: genBCDTime(t, label+"_time"),
		SerialNumber: rapid.Byte().Draw(t, label+"_sn"), AttachNumber: rapid.Byte().Draw(t, label+"_an"),
		AlarmReserve: rapid.SliceOfN(rapid.Byte(), n, n).Draw(t, label+"_rsv"), ActiveSafetyType: consts.ActiveSafetyType(dialect)}
}

// paramFieldID derives the parameter ID from a TerminalParamDetails field name (T0x01BICCardTCPPort -> 0x01B).
func paramFieldID(name string) (uint32, bool) {
	if !strings.HasPrefix(name, "T0x") || len(name) < 6 {
		return 0, false
	}
	v, err := strconv.ParseUint(name[3:6], 16, 32)
	return uint32(v), err == nil
}

var otherParamIDs = []uint32{0, 0x2a, 0x2b, 0x75, 0x76, 0x77, 0x79, 0x7a, 0x7b, 0x7c, 0xf000, 0xf364, 0xf365, 0xffffffff, 0x1000}

func genParams(t *rapid.T, label string) (model.TerminalParamDetails, int) {
	var d model.TerminalParamDetails
	count := 0
	v := reflect.ValueOf(&d).Elem()
	density := rapid.SampledFrom([]int{1, 3, 10, 10}).Draw(t, label+"_density")
	for i := 0; i < v.NumField(); i++ {
		f := v.Type().Field(i)
		id, ok := paramFieldID(f.Name)
		if !ok {
			continue
		}
		if rapid.IntRange(0, 9).Draw(t, label+"_pick") >= density {
			continue
		}
		count++
		switch p := v.Field(i).Addr().Interface().(type) {
		case *model.ParamContent[uint32]:
			*p = model.ParamContent[uint32]{ID: id, Len: 4, Value: genU32(t, label+"_v32")}
		case *model.ParamContent[uint16]:
			*p = model.ParamContent[uint16]{ID: id, Len: 2, Value: genU16(t, label+"_v16")}
		case *model.ParamContent[byte]:
			*p = model.ParamContent[byte]{ID: id, Len: 1, Value: rapid.Byte().Draw(t, label+"_v8")}
		case *model.ParamContent[[4]byte]:
			var a [4]byte
			copy(a[:], rapid.SliceOfN(rapid.Byte(), 4, 4).Draw(t, label+"_a4"))
			*p = model.ParamContent[[4]byte]{ID: id, Len: 4, Value: a}
		case *model.ParamContent[[8]byte]:
			var a [8]byte
			copy(a[:], rapid.SliceOfN(rapid.Byte(), 8, 8).Draw(t, label+"_a8"))
			*p = model.ParamContent[[8]byte]{ID: id, Len: 8, Value: a}
		case *model.ParamContent[string]:
			s := genGBKText(t, rapid.SampledFrom([]int{40, 40, 255}).Draw(t, label+"_strmax"), label+"_str")
			if s == "" {
				s = "A"
			}
			*p = model.ParamContent[string]{ID: id, Len: byte(gbkLen(s)), Value: s}
		default:
			count--
		}
	}
	nOther := rapid.IntRange(0, 3).Draw(t, label+"_nother")
	if nOther > 0 {
		d.OtherContent = map[uint32]model.ParamContent[[]byte]{}
		for i := 0; i < nOther; i++ {
			id := rapid.SampledFrom(otherParamIDs).Draw(t, label+"_oid")
			if _, dup := d.OtherContent[id]; dup {
				continue
			}
			n := rapid.IntRange(1, 24).Draw(t, label+"_olen")
			if id == 0x2a || id == 0x2b {
				n = 4
			}
			d.OtherContent[id] = model.ParamContent[[]byte]{ID: id, Len: byte(n), Value: rapid.SliceOfN(rapid.Byte(), n, n).Draw(t, label+"_oval")}
			count++
		}
	}
	return d, count
}

func gbkLen(s string) int {
	n := 0
	for _, r := range s {
		if r < 0x80 {
			n++
		} else {
			n += 2
		}
	}
	return n
}

type modelValue struct {
	Type    string          `json:"type"`
	V2019   bool            `json:"header_2019"`
	Dialect int             `json:"dialect,omitempty"`
	Value   json.RawMessage `json:"value"`
	ListLen int             `json:"list_len"`
}

func mv(name string, v2019 bool, dialect int, listLen int, v any) modelValue {
	b, err := json.Marshal(v)
	if err != nil {
		panic(err)
	}
	return modelValue{Type: name, V2019: v2019, Dialect: dialect, Value: b, ListLen: listLen}
}

// genModelValue draws an in-domain value of the named two-way type.
func genModelValue(t *rapid.T, name string) modelValue {
	v2019 := rapid.Bool().Draw(t, "hdr2019")
	b := func(l string) byte { return rapid.Byte().Draw(t, l) }
	switch name {
	case "T0x0001":
		return mv(name, v2019, 0, 0, &model.T0x0001{SerialNumber: genU16(t, "sn"), ID: genU16(t, "id"), Result: b("res")})
	case "T0x0002":
		return mv(name, v2019, 0, 0, &model.T0x0002{})
	case "T0x0100":
		ver := rapid.SampledFrom([]consts.ProtocolVersionType{consts.JT808Protocol2011, consts.JT808Protocol2013, consts.JT808Protocol2019}).Draw(t, "ver")
		m, tl, ti, plateMax := 5, 8, 7, 11
		switch ver {
		case consts.JT808Protocol2013:
			m, tl, ti, plateMax = 5, 20, 7, 24
		case consts.JT808Protocol2019:
			m, tl, ti, plateMax = 11, 30, 30, 24
		}
		v := &model.T0x0100{ProvinceID: genU16(t, "prov"), CityID: genU16(t, "city"), ManufacturerID: genStr(t, 0, m, true, "manu"),
			TerminalModel: genStr(t, 0, tl, true, "model"), TerminalID: genStr(t, 0, ti, true, "tid"), PlateColor: b("color"),
			LicensePlateNumber: genGBKText(t, plateMax, "plate"), Version: ver}
		return mv(name, ver == consts.JT808Protocol2019, 0, int(ver), v)
	case "T0x0102":
		if v2019 {
			code := genStr(t, 0, rapid.SampledFrom([]int{8, 20, 64, 200, 255}).Draw(t, "codemax"), true, "code")
			v := &model.T0x0102{AuthCodeLen: uint8(len(code)), AuthCode: code, TerminalIMEI: genStr(t, 15, 15, false, "imei"),
				SoftwareVersion: genStr(t, 0, 20, false, "sw"), Version: consts.JT808Protocol2019}
			return mv(name, true, 0, len(code), v)
		}
		return mv(name, false, 0, 0, &model.T0x0102{AuthCode: genStr(t, 0, 40, true, "code"), Version: consts.JT808Protocol2013})
	case "T0x0200":
		return mv(name, v2019, 0, 0, &model.T0x0200{T0x0200LocationItem: genLocationItem(t, "loc")})
	case "T0x0704":
		n := max(1, listLen(t, 34, "n"))
		v := &model.T0x0704{Num: uint16(n), LocationType: b("lt")}
		for i := 0; i < n; i++ {
			v.Items = append(v.Items, model.T0x0704LocationItem{Len: 28, T0x0200LocationItem: genLocationItem(t, "item")})
		}
		return mv(name, v2019, 0, n, v)
	case "T0x0800":
		return mv(name, v2019, 0, 0, &model.T0x0800{MultimediaID: genU32(t, "id"), MultimediaType: b("a"), MultimediaFormatEncode: b("b"), EventItemEncode: b("c"), ChannelID: b("d")})
	case "T0x0801":
		n := rapid.SampledFrom([]int{0, 1, 17, 200, 987}).Draw(t, "pkglen")
		return mv(name, v2019, 0, n, &model.T0x0801{MultimediaID: genU32(t, "id"), MultimediaType: b("a"), MultimediaFormatEncode: b("b"), EventItemEncode: b("c"),
			ChannelID: b("d"), T0x0200LocationItem: genLocationItem(t, "loc"), MultimediaPackage: genBytes(t, n, "pkg")})
	case "T0x0805":
		n := listLen(t, 250, "n")
		v := &model.T0x0805{RespondSerialNumber: genU16(t, "sn"), Result: b("res"), MultimediaIDNumber: uint16(n)}
		for i := 0; i < n; i++ {
			v.MultimediaIDList = append(v.MultimediaIDList, genU32(t, "mid"))
		}
		return mv(name, v2019, 0, n, v)
	case "T0x1003":
		return mv(name, v2019, 0, 0, &model.T0x1003{EnterAudioEncoding: b("a"), EnterAudioChannelsNumber: b("b"), EnterAudioSampleRate: b("c"), EnterAudioSampleDigits: b("d"),
			AudioFrameLength: genU16(t, "fl"), HasSupportedAudioOutput: b("e"), VideoEncoding: b("f"), TerminalSupportedMaxNumberOfAudioPhysicalChannels: b("g"),
			TerminalSupportedMaxNumberOfVideoPhysicalChannels: b("h")})
	case "T0x1005":
		return mv(name, v2019, 0, 0, &model.T0x1005{StartTime: genBCDTime(t, "st"), EndTime: genBCDTime(t, "et"), BoardNumber: genU16(t, "bn"), AlightNumber: genU16(t, "an")})
	case "T0x1205":
		n := listLen(t, 36, "n")
		v := &model.T0x1205{SerialNumber: genU16(t, "sn"), AudioVideoResourceTotal: uint32(n)}
		for i := 0; i < n; i++ {
			v.AudioVideoResourceList = append(v.AudioVideoResourceList, model.T0x1205AudioVideoResource{ChannelNo: b("ch"), StartTime: genBCDTime(t, "st"), EndTime: genBCDTime(t, "et"),
				AlarmFlag: rapid.Uint64().Draw(t, "af"), AudioVideoResourceType: b("rt"), StreamType: b("stt"), MemoryType: b("mt"), FileSizeByte: genU32(t, "fs")})
		}
		return mv(name, v2019, 0, n, v)
	case "T0x1206":
		return mv(name, v2019, 0, 0, &model.T0x1206{RespondSerialNumber: genU16(t, "sn"), Result: b("res")})
	case "T0x1210":
		d := rapid.IntRange(1, 5).Draw(t, "dialect")
		n := listLen(t, 8, "n")
		v := &model.T0x1210{P9208AlarmSign: genAlarmSign(t, d, "sign"), AlarmID: genStr(t, 0, 32, true, "aid"), InfoType: b("it"), AttachCount: byte(n)}
		if d != 2 {
			v.TerminalID = genStr(t, 0, dialectIDLen[d], true, "tid")
		}
		for i := 0; i < n; i++ {
			fn := genStr(t, 1, rapid.SampledFrom([]int{12, 50, 100}).Draw(t, "fnmax"), true, "fn") // attachment names are non-empty (files are addressed by name)
			v.T0x1210AlarmItemList = append(v.T0x1210AlarmItemList, model.T0x1210AlarmItem{FileNameLen: byte(len(fn)), FileName: fn, FileSize: genU32(t, "fs")})
		}
		return mv(name, v2019, d, n, v)
	case "T0x1211":
		fn := genStr(t, 0, rapid.SampledFrom([]int{12, 50, 255}).Draw(t, "fnmax"), true, "fn")
		return mv(name, v2019, 0, 0, &model.T0x1211{FileNameLen: byte(len(fn)), FileName: fn, FileType: b("ft"), FileSize: genU32(t, "fs")})
	case "T0x1212":
		fn := genStr(t, 0, rapid.SampledFrom([]int{12, 50, 255}).Draw(t, "fnmax"), true, "fn")
		return mv(name, v2019, 0, 0, &model.T0x1212{T0x1211: model.T0x1211{FileNameLen: byte(len(fn)), FileName: fn, FileType: b("ft"), FileSize: genU32(t, "fs")}})
	case "P0x8001":
		return mv(name, v2019, 0, 0, &model.P0x8001{RespondSerialNumber: genU16(t, "sn"), RespondID: genU16(t, "id"), Result: b("res")})
	case "P0x8003":
		n := listLen(t, 255, "n")
		v := &model.P0x8003{OriginalSerialNumber: genU16(t, "sn"), AgainPackageCount: byte(n)}
		for i := 0; i < n; i++ {
			v.AgainPackageList = append(v.AgainPackageList, genU16(t, "pk"))
		}
		return mv(name, v2019, 0, n, v)
	case "P0x8100":
		return mv(name, v2019, 0, 0, &model.P0x8100{RespondSerialNumber: genU16(t, "sn"), Result: b("res"), AuthCode: genStr(t, 0, 30, true, "code")})
	case "P0x8103":
		d, n := genParams(t, "par")
		return mv(name, v2019, 0, n, &model.P0x8103{ParamTotal: uint8(n), TerminalParamDetails: d})
	case "P0x8104":
		return mv(name, v2019, 0, 0, &model.P0x8104{})
	case "P0x8800":
		n := listLen(t, 255, "n")
		v := &model.P0x8800{MultimediaID: genU32(t, "id"), AgainPackageCount: byte(n)}
		for i := 0; i < n; i++ {
			v.AgainPackageList = append(v.AgainPackageList, genU16(t, "pk"))
		}
		return mv(name, v2019, 0, n, v)
	case "P0x8801":
		return mv(name, v2019, 0, 0, &model.P0x8801{ChannelID: b("a"), ShootCommand: genU16(t, "sc"), PhotoIntervalOrVideoTime: genU16(t, "pi"), SaveFlag: b("b"), Resolution: b("c"),
			VideoQuality: b("d"), Intensity: b("e"), Contrast: b("f"), Saturation: b("g"), Chroma: b("h")})
	case "P0x9003":
		return mv(name, v2019, 0, 0, &model.P0x9003{})
	case "P0x9101":
		ip := genStr(t, 0, rapid.SampledFrom([]int{15, 64, 255}).Draw(t, "ipmax"), true, "ip")
		return mv(name, v2019, 0, 0, &model.P0x9101{ServerIPLen: byte(len(ip)), ServerIPAddr: ip, TcpPort: genU16(t, "tp"), UdpPort: genU16(t, "up"), ChannelNo: b("a"), DataType: b("b"), StreamType: b("c")})
	case "P0x9102":
		return mv(name, v2019, 0, 0, &model.P0x9102{ChannelNo: b("a"), ControlCmd: b("b"), CloseAudioVideoData: b("c"), StreamType: b("d")})
	case "P0x9105":
		return mv(name, v2019, 0, 0, &model.P0x9105{ChannelNo: b("a"), PackageLossRate: b("b")})
	case "P0x9201":
		ip := genStr(t, 0, rapid.SampledFrom([]int{15, 64, 255}).Draw(t, "ipmax"), true, "ip")
		return mv(name, v2019, 0, 0, &model.P0x9201{ServerIPLen: byte(len(ip)), ServerIPAddr: ip, TcpPort: genU16(t, "tp"), UdpPort: genU16(t, "up"), ChannelNo: b("a"), MediaType: b("b"),
			StreamType: b("c"), MemoryType: b("d"), PlaybackWay: b("e"), PlaySpeed: b("f"), StartTime: genBCDTime(t, "st"), EndTime: genBCDTime(t, "et")})
	case "P0x9202":
		return mv(name, v2019, 0, 0, &model.P0x9202{ChannelNo: b("a"), PlayControl: b("b"), PlaySpeed: b("c"), DateTime: genBCDTime(t, "dt")})
	case "P0x9205":
		return mv(name, v2019, 0, 0, &model.P0x9205{ChannelNo: b("a"), StartTime: genBCDTime(t, "st"), EndTime: genBCDTime(t, "et"), AlarmFlag: rapid.Uint64().Draw(t, "af"), MediaType: b("b"), StreamType: b("c"), StorageType: b("d")})
	case "P0x9206":
		addr, user, pass, path := genStr(t, 0, 60, true, "addr"), genStr(t, 0, 30, true, "user"), genStr(t, 0, 30, true, "pass"), genStr(t, 0, 80, true, "path")
		return mv(name, v2019, 0, 0, &model.P0x9206{FTPAddrLen: byte(len(addr)), FTPAddr: addr, Port: genU16(t, "port"), UsernameLen: byte(len(user)), Username: user, PasswordLen: byte(len(pass)),
			Password: pass, FileUploadPathLen: byte(len(path)), FileUploadPath: path, ChannelNo: b("a"), StartTime: genBCDTime(t, "st"), EndTime: genBCDTime(t, "et"),
			AlarmFlag: rapid.Uint64().Draw(t, "af"), MediaType: b("b"), StreamType: b("c"), MemoryPosition: b("d"), TaskExecuteCondition: b("e")})
	case "P0x9207":
		return mv(name, v2019, 0, 0, &model.P0x9207{RespondSerialNumber: genU16(t, "sn"), UploadControl: b("a")})
	case "P0x9208":
		d := rapid.IntRange(1, 5).Draw(t, "dialect")
		ip := genStr(t, 0, rapid.SampledFrom([]int{15, 64}).Draw(t, "ipmax"), true, "ip")
		rn := rapid.SampledFrom([]int{0, 16, 16, 5}).Draw(t, "rsvlen")
		return mv(name, v2019, d, 0, &model.P0x9208{ServerIPLen: byte(len(ip)), ServerAddr: ip, TcpPort: genU16(t, "tp"), UdpPort: genU16(t, "up"),
			P9208AlarmSign: genAlarmSign(t, d, "sign"), AlarmID: genStr(t, 0, 32, true, "aid"), Reserve: rapid.SliceOfN(rapid.Byte(), rn, rn).Draw(t, "rsv")})
	case "P0x9212":
		fn := genStr(t, 0, rapid.SampledFrom([]int{12, 50, 255}).Draw(t, "fnmax"), true, "fn")
		n := listLen(t, 90, "n")
		v := &model.P0x9212{FileNameLen: byte(len(fn)), FileName: fn, FileType: b("ft"), UploadResult: b("ur"), RetransmitPacketNumber: byte(n)}
		for i := 0; i < n; i++ {
			v.P0x9212RetransmitPacketList = append(v.P0x9212RetransmitPacketList, model.P0x9212RetransmitPacket{DataOffset: genU32(t, "off"), DataLength: genU32(t, "len")})
		}
		return mv(name, v2019, 0, n, v)
	}
	panic("no generator for " + name)
}

// twoWay lists the types that offer both an encoder and a parser with content (T0x0104 has no encoder).
var twoWay = []string{"T0x0001", "T0x0002", "T0x0100", "T0x0102", "T0x0200", "T0x0704", "T0x0800", "T0x0801", "T0x0805", "T0x1003", "T0x1005",
	"T0x1205", "T0x1206", "T0x1210", "T0x1211", "T0x1212", "P0x8001", "P0x8003", "P0x8100", "P0x8103", "P0x8104", "P0x8800", "P0x8801", "P0x9003",
	"P0x9101", "P0x9102", "P0x9105", "P0x9201", "P0x9202", "P0x9205", "P0x9206", "P0x9207", "P0x9208", "P0x9212"}

func decodeModelValue(m modelValue) (handler, error) {
	h := newModel(m.Type, m.Dialect)
	if h == nil {
		return nil, fmt.Errorf("HARNESS-ERROR unknown type %s", m.Type)
	}
	if err := json.Unmarshal(m.Value, h); err != nil {
		return nil, fmt.Errorf("HARNESS-ERROR cannot restore %s: %v", m.Type, err)
	}
	return h, nil
}

var _ = kit.Hex{}
