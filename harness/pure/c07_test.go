package pure

import (
	"bytes"
	"fmt"
	"os"
	"strconv"
	"testing"

	"verif/harness/kit"
	"verif/harness/ref"

	"github.com/cuteLittleDevil/go-jt808/protocol/model"
	"github.com/cuteLittleDevil/go-jt808/protocol/utils"
	"pgregory.net/rapid"
)

// C07: Parse(Encode(v)) == v and Encode(Parse(Encode(v))) == Encode(v) for every two-way message type.

type c07Case struct {
	M modelValue `json:"message"`
	// Prior: a message of the same type (same dialect and header version) that the receiving handler parsed before -
	// the service keeps one handler object per message type and connection
	Prior *modelValue `json:"message_parsed_before_by_the_same_handler,omitempty"`
}

func genC07For(name string) func(t *rapid.T) c07Case {
	return func(t *rapid.T) c07Case { return c07Case{M: genModelValue(t, name)} }
}

func genC07(t *rapid.T) c07Case {
	name := rapid.SampledFrom(twoWay).Draw(t, "type")
	if only := os.Getenv("VERIF_ONLY_TYPE"); only != "" {
		name = only
	}
	c := c07Case{M: genModelValue(t, name)}
	if rapid.IntRange(0, 2).Draw(t, "with_prior") == 0 {
		for i := 0; i < 4 && c.Prior == nil; i++ {
			if p := genModelValue(t, name); p.Dialect == c.M.Dialect && p.V2019 == c.M.V2019 {
				c.Prior = &p
			}
		}
	}
	return c
}

// known-finding classes of C07 (only applied while listed as open findings in known_findings.json):
// parameters 0x18/0x19/0x21 have fields but the parser files them under OtherContent (pinned by the
// repository's own golden test, so not repairable): they are removed from the value before judging.
func c07Strip(v handler) []string {
	p, ok := v.(*model.P0x8103)
	if !ok || !kit.Known("C07-param-0x18-0x19-0x21") {
		return nil
	}
	d := &p.TerminalParamDetails
	n := 0
	if d.T0x018TCPPort.ID != 0 {
		d.T0x018TCPPort = model.ParamContent[uint32]{}
		n++
	}
	if d.T0x019UDPPort.ID != 0 {
		d.T0x019UDPPort = model.ParamContent[uint32]{}
		n++
	}
	if d.T0x021PositionReportingPlan.ID != 0 {
		d.T0x021PositionReportingPlan = model.ParamContent[uint32]{}
		n++
	}
	if n == 0 {
		return nil
	}
	p.ParamTotal -= uint8(n)
	return []string{"C07-param-0x18-0x19-0x21"}
}

func checkC07(c c07Case, _ *kit.Collector) kit.Result {
	res := kit.Result{}
	v, err := decodeModelValue(c.M)
	if err != nil {
		res.Err = err
		return res
	}
	res.Stripped = c07Strip(v)
	ll := "list0"
	switch {
	case c.M.ListLen == 1:
		ll = "list1"
	case c.M.ListLen == 2:
		ll = "list2"
	case c.M.ListLen >= 3:
		ll = "list>=3"
	}
	res.Labels = []string{c.M.Type, kit.L(c.M.Type, ll)}
	if c.M.Dialect != 0 {
		res.Labels = append(res.Labels, kit.L(c.M.Type, "dialect"+strconv.Itoa(c.M.Dialect)))
	}
	if c.M.V2019 {
		res.Labels = append(res.Labels, "hdr2019")
	}
	res.NT = c.M.ListLen >= 2 || c.M.Dialect > 1 || c.M.V2019 || bytes.ContainsAny(c.M.Value, "\\u") // non-ASCII or list or non-default dialect/version

	body := v.Encode()
	if len(body) > 1023 {
		res.Excluded = "body>1023"
		return res
	}
	msg, err := jtMsg(uint16(v.Protocol()), c.M.V2019, exact(body))
	if err != nil {
		res.Err = kit.Fail("frame carrying the encoded body was rejected: %v", err)
		return res
	}
	v2 := newModel(c.M.Type, c.M.Dialect)
	if err := v2.Parse(msg); err != nil {
		res.Err = kit.Fail("%s: Parse(Encode(v)) failed: %v; body=%x", c.M.Type, err, head(body))
		return res
	}
	want, _ := decodeModelValue(c.M) // pristine copy (Encode may have touched v)
	c07Strip(want)
	if d := diff(want, v2); d != "" {
		res.Err = kit.Fail("%s: Parse(Encode(v)) != v at %s; body=%x", c.M.Type, d, head(body))
		return res
	}
	body2 := v2.Encode()
	if !bytes.Equal(body, body2) {
		res.Err = kit.Fail("%s: Encode(Parse(Encode(v))) differs: %x vs %x", c.M.Type, head(body2), head(body))
		return res
	}
	if err := kit.Safely(func() error { _ = v2.String(); return nil }); err != nil {
		res.Err = kit.Fail("%s: String() of the parsed value: %v", c.M.Type, err)
		return res
	}
	if c.Prior != nil {
		pv, err := decodeModelValue(*c.Prior)
		if err != nil {
			res.Err = err
			return res
		}
		c07Strip(pv)
		pbody := pv.Encode()
		pmsg, err := jtMsg(uint16(pv.Protocol()), c.M.V2019, exact(pbody))
		if len(pbody) > 1023 || err != nil {
			return res
		}
		v3 := newModel(c.M.Type, c.M.Dialect)
		if err := v3.Parse(pmsg); err != nil {
			return res // that message's own case
		}
		msg3, _ := jtMsg(uint16(v.Protocol()), c.M.V2019, exact(body))
		if err := v3.Parse(msg3); err != nil {
			res.Err = kit.Fail("%s: a handler that had parsed another %s before: Parse(Encode(v)) failed: %v; body=%x", c.M.Type, c.M.Type, err, head(body))
			return res
		}
		if d := diff(want, v3); d != "" {
			res.Err = kit.Fail("%s: a handler that had parsed another %s before: Parse(Encode(v)) != v at %s; body=%x earlier body=%x", c.M.Type, c.M.Type, d, head(body), head(pbody))
			return res
		}
		if b3 := v3.Encode(); !bytes.Equal(b3, body) {
			res.Err = kit.Fail("%s: a handler that had parsed another %s before re-encodes to %x, want %x", c.M.Type, c.M.Type, head(b3), head(body))
			return res
		}
		res.Labels = append(res.Labels, "handler_reused")
	}
	return res
}

func TestC07(t *testing.T) {
	kit.Run(t, kit.Prop[c07Case]{ID: "C07", Part: "TestC07", Gen: genC07, Check: checkC07})
}

// ---- helpers: BCD phone/time, GBK, fixed-width padding ----

type c07uCase struct {
	Kind string  `json:"kind"`
	S    string  `json:"s"`
	B    kit.Hex `json:"b"`
	N    int     `json:"n"`
}

func genC07u(t *rapid.T) c07uCase {
	c := c07uCase{Kind: rapid.SampledFrom([]string{"time", "bcdtime", "bcd2dec", "gbk", "fill"}).Draw(t, "kind")}
	switch c.Kind {
	case "time":
		c.S = genBCDTime(t, "t")
	case "bcdtime":
		c.B = genPhoneBCD(t, 6, "b")
	case "bcd2dec":
		n := rapid.IntRange(1, 10).Draw(t, "n")
		c.B = genPhoneBytes(t, n, "b")
	case "gbk":
		c.S = genGBKText(t, rapid.SampledFrom([]int{60, 255}).Draw(t, "smax"), "s")
	case "fill":
		c.S = genStr(t, 0, 40, true, "s")
		c.N = rapid.IntRange(0, 50).Draw(t, "n")
	}
	return c
}

func checkC07u(c c07uCase, _ *kit.Collector) kit.Result {
	res := kit.Result{Labels: []string{"util_" + c.Kind}, NT: true}
	switch c.Kind {
	case "time":
		b := utils.Time2BCD(c.S)
		if len(b) != 6 {
			res.Err = kit.Fail("Time2BCD(%q) has %d bytes", c.S, len(b))
		} else if got := utils.BCD2Time(b); got != c.S {
			res.Err = kit.Fail("BCD2Time(Time2BCD(%q)) = %q", c.S, got)
		} else {
			// independent reading: digits of YY MM DD hh mm ss
			want := []byte{}
			for _, p := range [][2]int{{2, 4}, {5, 7}, {8, 10}, {11, 13}, {14, 16}, {17, 19}} {
				want = append(want, (c.S[p[0]]-'0')<<4|(c.S[p[1]-1]-'0'))
			}
			if !bytes.Equal(b, want) {
				res.Err = kit.Fail("Time2BCD(%q) = %x want %x", c.S, b, want)
			}
		}
	case "bcdtime":
		s := utils.BCD2Time(c.B)
		want := fmt.Sprintf("20%s-%s-%s %s:%s:%s", ref.PhoneDigits(c.B[0:1]), ref.PhoneDigits(c.B[1:2]), ref.PhoneDigits(c.B[2:3]), ref.PhoneDigits(c.B[3:4]), ref.PhoneDigits(c.B[4:5]), ref.PhoneDigits(c.B[5:6]))
		if s != want {
			res.Err = kit.Fail("BCD2Time(%x) = %q want %q", []byte(c.B), s, want)
		} else if back := utils.Time2BCD(s); !bytes.Equal(back, c.B) {
			res.Err = kit.Fail("Time2BCD(BCD2Time(%x)) = %x", []byte(c.B), back)
		}
	case "bcd2dec":
		got := utils.Bcd2Dec(c.B)
		digits := ref.PhoneDigits(c.B)
		want := ref.StripZeros(digits)
		if want == "" {
			want = digits // the library keeps an all-zero number as is
		}
		if got != want {
			res.Err = kit.Fail("Bcd2Dec(%x) = %q want %q", []byte(c.B), got, want)
		}
	case "gbk":
		g := utils.UTF82GBK([]byte(c.S))
		if len(g) != gbkLen(c.S) {
			res.Err = kit.Fail("UTF82GBK(%q) has %d bytes want %d", c.S, len(g), gbkLen(c.S))
		} else if back := string(utils.GBK2UTF8(g)); back != c.S {
			res.Err = kit.Fail("GBK2UTF8(UTF82GBK(%q)) = %q", c.S, back)
		}
	case "fill":
		b := utils.String2FillingBytes(c.S, c.N)
		if len(b) != c.N {
			res.Err = kit.Fail("String2FillingBytes(%q,%d) has %d bytes", c.S, c.N, len(b))
			break
		}
		k := min(len(c.S), c.N)
		if string(b[:k]) != c.S[:k] || !bytes.Equal(b[k:], make([]byte, c.N-k)) {
			res.Err = kit.Fail("String2FillingBytes(%q,%d) = %x: not prefix + zero padding", c.S, c.N, b)
		}
	}
	return res
}

func TestC07Utils(t *testing.T) {
	kit.Run(t, kit.Prop[c07uCase]{ID: "C07", Part: "TestC07Utils", Gen: genC07u, Check: checkC07u})
}

// ---- the same round trip while other goroutines decode other messages (a result must not depend on concurrent calls) ----

type c07cCase struct {
	Values []modelValue `json:"values"` // one per goroutine
}

var timeBearing = []string{"T0x0200", "T0x0704", "T0x1005", "T0x1205", "P0x9201", "P0x9202", "P0x9205", "P0x9206", "P0x9208", "T0x1210", "T0x0801", "T0x0100", "P0x8103"}

func genC07c(t *rapid.T) c07cCase {
	n := rapid.IntRange(2, 6).Draw(t, "goroutines")
	c := c07cCase{}
	for i := 0; i < n; i++ {
		c.Values = append(c.Values, genModelValue(t, rapid.SampledFrom(timeBearing).Draw(t, "type")))
	}
	return c
}

func checkC07c(c c07cCase, col *kit.Collector) kit.Result {
	res := kit.Result{Labels: []string{"concurrent_round_trips"}, NT: true}
	errs := make([]error, len(c.Values))
	start := make(chan struct{})
	done := make(chan int, len(c.Values))
	for i := range c.Values {
		go func(i int) {
			defer func() { done <- i }()
			<-start
			for k := 0; k < 10 && errs[i] == nil; k++ {
				errs[i] = kit.Safely(func() error { return checkC07(c07Case{M: c.Values[i]}, nil).Err })
			}
		}(i)
	}
	close(start)
	for range c.Values {
		<-done
	}
	for i, e := range errs {
		if e != nil {
			// the single-goroutine property must hold for this value, otherwise this is C07's ordinary finding
			if single := checkC07(c07Case{M: c.Values[i]}, nil).Err; single == nil {
				res.Err = kit.Fail("round trip of %s fails only while %d other goroutines decode other messages: %v", c.Values[i].Type, len(c.Values)-1, e)
			} else {
				res.Err = single
			}
			return res
		}
	}
	return res
}

func TestC07Concurrent(t *testing.T) {
	kit.Run(t, kit.Prop[c07cCase]{ID: "C07", Part: "TestC07Concurrent", Gen: genC07c, Check: checkC07c})
}
