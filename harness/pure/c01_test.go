package pure

import (
	"bytes"
	"fmt"
	"testing"

	"verif/harness/kit"
	"verif/harness/ref"

	"github.com/cuteLittleDevil/go-jt808/protocol/jt808"
	"github.com/cuteLittleDevil/go-jt808/shared/consts"
	"pgregory.net/rapid"
)

// C01: Header.Encode / JTMessage.Decode round trip and delimiter transparency.

type c01Case struct {
	Src        specCase `json:"source_frame"`
	ReplyID    uint16   `json:"reply_id"`
	PlatSerial uint16   `json:"platform_serial"`
	Body       kit.Hex  `json:"body"`
	Steer      string   `json:"checksum_steered_to"`
	// Recycled: the message object that decodes the source frame decoded another frame before (1: a 2019 frame with a
	// 10-byte phone full of escapes, 2: a fragmented 2019 frame) - servers and pools re-use message values
	Recycled int `json:"message_object_decoded_another_frame_before,omitempty"`
}

// expected raw reply (reference builder) for checksum steering.
func c01ExpectedSpec(c c01Case) ref.Spec {
	return ref.Spec{ID: c.ReplyID, Version2019: c.Src.Version2019, VersionByte: 1, Encrypt: c.Src.Encrypt,
		PhoneBCD: c.Src.Phone, Serial: c.PlatSerial, Body: c.Body}
}

// c01OtherFrame: a valid frame of another terminal whose phone, serial and body all need escaping.
var c01OtherFrame = ref.Spec{ID: 0x0200, Version2019: true, VersionByte: 1, PhoneBCD: []byte{0x7e, 0x7d, 0x13, 0x91, 0x11, 0x12, 0x22, 0x27, 0x7d, 0x7e}, Serial: 0x7e7d,
	Body: []byte{0x7d, 0x7e, 0x7d, 0x01, 0x7e, 0x02, 0xaa, 0x7d, 0xbb, 0x7e, 0xcc, 0x7d, 0x7d, 0x7e, 0x7e, 0x11, 0x22, 0x33, 0x44, 0x55, 0x66, 0x77, 0x88, 0x99}}.Build()

func genC01(t *rapid.T) c01Case {
	c := c01Case{}
	c.Src = genSpec(t, "src", rapid.IntRange(0, 40).Draw(t, "src_bodylen"))
	c.ReplyID = uint16(rapid.IntRange(1, 0xffff).Draw(t, "reply_id"))
	if rapid.IntRange(0, 7).Draw(t, "reply_id_special") == 0 {
		c.ReplyID = rapid.SampledFrom([]uint16{0x7e7e, 0x7d7d, 0x7e00, 0x007e, 0x7d02, 0x8001, 0x8100}).Draw(t, "reply_id_s")
	}
	c.PlatSerial = genU16(t, "plat_serial")
	c.Body = genBytes(t, genBodyLen(t, "bodylen"), "body")
	c.Recycled = rapid.SampledFrom([]int{0, 0, 1, 2}).Draw(t, "recycled")
	c.Steer = rapid.SampledFrom([]string{"", "", "", "7e", "7d"}).Draw(t, "steer")
	if c.Steer != "" && len(c.Body) > 0 {
		raw := c01ExpectedSpec(c).Raw()
		cur := raw[len(raw)-1]
		target := byte(0x7e)
		if c.Steer == "7d" {
			target = 0x7d
		}
		k := rapid.IntRange(0, len(c.Body)-1).Draw(t, "steer_pos")
		c.Body[k] ^= cur ^ target
	} else {
		c.Steer = ""
	}
	return c
}

func checkC01(c c01Case, _ *kit.Collector) kit.Result {
	res := kit.Result{}
	src := c.Src.Spec().Build()
	msg := jt808.NewJTMessage()
	if c.Recycled > 0 {
		prior := c01OtherFrame
		if c.Recycled == 2 {
			prior = c02PriorFrame
		}
		if err := msg.Decode(append([]byte(nil), prior...)); err != nil {
			res.Err = kit.Fail("HARNESS-ERROR prior frame rejected: %v", err)
			return res
		}
		res.Labels = append(res.Labels, "recycled_message_object")
	}
	if err := msg.Decode(src); err != nil {
		res.Err = kit.Fail("valid source frame %x rejected by Decode: %v", src, err)
		return res
	}
	h := msg.Header
	srcPhone, srcVer := h.TerminalPhoneNo, h.ProtocolVersion
	// the header is kept while other traffic is decoded (another terminal's escaped frame), as a server does
	if err := jt808.NewJTMessage().Decode(append([]byte(nil), c01OtherFrame...)); err != nil {
		res.Err = kit.Fail("HARNESS-ERROR other frame rejected: %v", err)
		return res
	}
	h.ReplyID = c.ReplyID
	h.PlatformSerialNumber = c.PlatSerial
	body := append([]byte(nil), c.Body...)
	out := h.Encode(body)

	ver := "2013"
	if c.Src.Version2019 {
		ver = "2019"
	}
	frag := "plain"
	if c.Src.Fragmented {
		frag = "fragmented"
	}
	long := "len<1000"
	if len(c.Body) >= 1000 {
		long = "len>=1000"
	}
	raw := c01ExpectedSpec(c).Raw()
	chk := "chk_other"
	switch raw[len(raw)-1] {
	case 0x7e:
		chk = "chk_7e"
	case 0x7d:
		chk = "chk_7d"
	}
	res.Labels = append(res.Labels, ver, frag, long, chk, kit.L(ver, frag, long))
	if c.Src.Encrypt {
		res.Labels = append(res.Labels, "encrypt_bit")
	}
	res.NT = countSpecial(c.Body) > 0 || chk != "chk_other" || len(c.Body) >= 1000 || c.Src.Fragmented

	if !bytes.Equal(body, c.Body) {
		res.Err = kit.Fail("Encode modified the caller's body slice")
		return res
	}
	// (c) delimiter transparency
	if len(out) < 2 || out[0] != 0x7e || out[len(out)-1] != 0x7e {
		res.Err = kit.Fail("frame %x... does not start and end with 0x7e", head(out))
		return res
	}
	if i := bytes.IndexByte(out[1:len(out)-1], 0x7e); i != -1 {
		res.Err = kit.Fail("frame %x... contains 0x7e at interior offset %d", head(out), i+1)
		return res
	}
	// (a) library decoder
	back := jt808.NewJTMessage()
	if err := back.Decode(out); err != nil {
		res.Err = kit.Fail("library cannot decode its own frame %x...: %v", head(out), err)
		return res
	}
	wantVer := consts.JT808Protocol2013
	if c.Src.Version2019 {
		wantVer = consts.JT808Protocol2019
	}
	var errs []string
	if back.Header.ID != c.ReplyID {
		errs = append(errs, fmt.Sprintf("ID %#04x want %#04x", back.Header.ID, c.ReplyID))
	}
	if back.Header.TerminalPhoneNo != srcPhone {
		errs = append(errs, fmt.Sprintf("phone %q want %q", back.Header.TerminalPhoneNo, srcPhone))
	}
	if back.Header.ProtocolVersion != srcVer || srcVer != wantVer {
		errs = append(errs, fmt.Sprintf("version %v want %v (source decoded as %v)", back.Header.ProtocolVersion, wantVer, srcVer))
	}
	if back.Header.SerialNumber != c.PlatSerial {
		errs = append(errs, fmt.Sprintf("serial %d want %d", back.Header.SerialNumber, c.PlatSerial))
	}
	if !bytes.Equal(back.Body, c.Body) {
		errs = append(errs, fmt.Sprintf("body differs: got %d bytes %x want %d bytes %x", len(back.Body), head(back.Body), len(c.Body), head(c.Body)))
	}
	// (b) reference decoder on the same bytes
	f, why := ref.Validate(out)
	if why != "" {
		errs = append(errs, "reference decoder rejects the frame: "+why)
	} else {
		if f.ID != c.ReplyID {
			errs = append(errs, fmt.Sprintf("ref ID %#04x want %#04x", f.ID, c.ReplyID))
		}
		if !bytes.Equal(f.PhoneBCD, c.Src.Phone) {
			errs = append(errs, fmt.Sprintf("ref phone %x want %x", f.PhoneBCD, []byte(c.Src.Phone)))
		}
		if f.Version2019 != c.Src.Version2019 {
			errs = append(errs, "ref version bit differs")
		}
		if f.Serial != c.PlatSerial {
			errs = append(errs, fmt.Sprintf("ref serial %d want %d", f.Serial, c.PlatSerial))
		}
		if !bytes.Equal(f.Body, c.Body) {
			errs = append(errs, fmt.Sprintf("ref body differs: got %d bytes want %d", len(f.Body), len(c.Body)))
		}
	}
	// (c) the exchange goes on: the same message object decodes the terminal's next frame (the same bytes again) after its
	// header was used for Encode, and the reply just framed is itself decoded by a message object that has history
	if err := msg.Decode(append([]byte(nil), src...)); err != nil {
		errs = append(errs, fmt.Sprintf("after Header.Encode the same message object rejects the source frame it accepted before: %v", err))
	} else if msg.Header.TerminalPhoneNo != srcPhone || int(msg.Header.Property.BodyDayaLen) != len(c.Src.Spec().Body) {
		errs = append(errs, fmt.Sprintf("after Header.Encode the source frame decodes differently: phone %q body length %d", msg.Header.TerminalPhoneNo, msg.Header.Property.BodyDayaLen))
	}
	if len(errs) == 0 {
		if err := msg.Decode(exact(out)); err != nil {
			errs = append(errs, fmt.Sprintf("the framed reply is rejected by a message object that decoded other frames before: %v", err))
		} else if !bytes.Equal(msg.Body, c.Body) || msg.Header.SerialNumber != c.PlatSerial {
			errs = append(errs, "the framed reply decodes differently on a message object that decoded other frames before")
		}
	}
	// (d) the header frames further messages: every frame carries the serial it was asked to carry - also 0 after other
	// serials (a counter that wrapped) - and the same request gives the same bytes
	if len(errs) == 0 {
		for _, ser := range []uint16{0, c.PlatSerial, 0, 0xffff, 0} {
			h.ReplyID, h.PlatformSerialNumber = c.ReplyID, ser
			again := h.Encode(append([]byte(nil), c.Body...))
			f2, why2 := ref.Validate(again)
			if why2 != "" {
				errs = append(errs, fmt.Sprintf("a later frame from the same header, asked for serial %d, is not well-formed: %s (frame %x)", ser, why2, head(again)))
				break
			}
			if f2.Serial != ser || f2.ID != c.ReplyID || !bytes.Equal(f2.Body, c.Body) || !bytes.Equal(f2.PhoneBCD, c.Src.Phone) {
				errs = append(errs, fmt.Sprintf("a later frame from the same header, asked for serial %d: %s serial %d id %#04x (frame %x)", ser, why2, f2.Serial, f2.ID, head(again)))
				break
			}
			if ser == c.PlatSerial && !bytes.Equal(again, out) {
				errs = append(errs, "the same request framed a second time gives other bytes")
				break
			}
		}
	}
	if len(errs) > 0 {
		res.Err = kit.Fail("round trip mismatch for frame %x: %v", head(out), errs)
	}
	return res
}

func head(b []byte) []byte {
	if len(b) > 48 {
		return b[:48]
	}
	return b
}

func TestC01(t *testing.T) {
	kit.Run(t, kit.Prop[c01Case]{ID: "C01", Part: "TestC01", Gen: genC01, Check: checkC01})
}

// TestC01Sweep: every body length 0..1023 x 4 source header shapes x 3 fill patterns (exhaustive).
func TestC01Sweep(t *testing.T) {
	kit.Enum(t, "C01", "TestC01Sweep", "TestC01", func(col *kit.Collector) (any, error) {
		shard, shards := kit.Shard()
		fills := []byte{0x7e, 0x7d, 0x41}
		n := int64(0)
		for l := 0; l <= 1023; l++ {
			if l%shards != shard {
				continue
			}
			for shape := 0; shape < 4; shape++ {
				for _, fill := range fills {
					c := c01Case{ReplyID: 0x8001, PlatSerial: uint16(l)}
					c.Src = specCase{ID: 0x0200, Version2019: shape&1 == 1, VersionByte: 1, Fragmented: shape&2 == 2, Serial: 7, Total: 3, No: 2, Body: kit.Hex{1, 2, 3}}
					ph := 6
					if c.Src.Version2019 {
						ph = 10
					}
					c.Src.Phone = ref.PhoneBCDFromDigits("13800138000", ph)
					c.Body = bytes.Repeat([]byte{fill}, l)
					res := checkC01(c, col)
					n++
					col.RecordHash(kit.HashJSON(c), res, func() any { return c })
					if res.Err != nil {
						return c, res.Err
					}
				}
			}
		}
		col.SetExhaustive(true, 1024*4*3)
		return nil, nil
	})
}
