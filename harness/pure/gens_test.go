package pure

import (
	"encoding/hex"
	"verif/harness/kit"
	"verif/harness/ref"

	"pgregory.net/rapid"
)

// ---- shared generators (every random choice is a rapid draw) ----

func genU16(t *rapid.T, label string) uint16 {
	switch rapid.IntRange(0, 9).Draw(t, label+"_k") {
	case 0:
		return rapid.SampledFrom([]uint16{0, 1, 2, 0x7d, 0x7e, 0x7d7e, 0x7e7d, 0x7e7e, 0x7d7d, 0x00ff, 0xff00, 0xfffe, 0xffff, 1000, 1023, 0x8000}).Draw(t, label)
	default:
		return rapid.Uint16().Draw(t, label)
	}
}

// genPhoneBytes: a phone field as it may appear on the wire - mostly decimal BCD, sometimes arbitrary bytes
// (nibbles a..f are rendered as lower-case letters; pinned by the repository's TestBcd2Dec).
func genPhoneBytes(t *rapid.T, n int, label string) []byte {
	if rapid.IntRange(0, 7).Draw(t, label+"_hex") != 0 {
		return genPhoneBCD(t, n, label)
	}
	out := make([]byte, n)
	for i := range out {
		out[i] = rapid.SampledFrom([]byte{0xff, 0xff, 0xa0, 0x0a, 0xfe, 0x7e, 0x7d, 0x12, 0x00, 0x9f, 0xf9}).Draw(t, label+"_x")
	}
	return out
}

func genPhoneBCD(t *rapid.T, n int, label string) []byte {
	k := rapid.IntRange(0, 9).Draw(t, label+"_k")
	out := make([]byte, n)
	switch k {
	case 0: // all zero
	case 1:
		for i := range out {
			out[i] = 0x99
		}
	case 2: // leading zeros then digits
		nz := rapid.IntRange(0, n-1).Draw(t, label+"_nz")
		for i := nz; i < n; i++ {
			out[i] = byte(rapid.IntRange(0, 9).Draw(t, label+"_h"))<<4 | byte(rapid.IntRange(0, 9).Draw(t, label+"_l"))
		}
	default:
		for i := range out {
			out[i] = byte(rapid.IntRange(0, 9).Draw(t, label+"_h"))<<4 | byte(rapid.IntRange(0, 9).Draw(t, label+"_l"))
		}
	}
	return out
}

var specials = []byte{0x7e, 0x7d, 0x01, 0x02}

// genBytes produces a byte string of exactly n bytes from a mixture of styles.
func genBytes(t *rapid.T, n int, label string) []byte {
	out := make([]byte, n)
	if n == 0 {
		return out
	}
	style := rapid.IntRange(0, 5).Draw(t, label+"_style")
	switch style {
	case 0: // uniform
		copy(out, rapid.SliceOfN(rapid.Byte(), n, n).Draw(t, label))
	case 1: // dense in specials
		for i := range out {
			if rapid.IntRange(0, 9).Draw(t, label+"_d") < 6 {
				out[i] = rapid.SampledFrom(specials).Draw(t, label+"_s")
			} else {
				out[i] = rapid.Byte().Draw(t, label+"_b")
			}
		}
	case 2: // constant filler + specials at ends / adjacent
		fill := rapid.SampledFrom([]byte{0x00, 0x41, 0xff, 0x30}).Draw(t, label+"_fill")
		for i := range out {
			out[i] = fill
		}
		out[0] = rapid.SampledFrom(specials).Draw(t, label+"_first")
		out[n-1] = rapid.SampledFrom(specials).Draw(t, label+"_last")
		if n >= 4 {
			p := rapid.IntRange(1, n-3).Draw(t, label+"_adj")
			out[p] = rapid.SampledFrom(specials).Draw(t, label+"_a1")
			out[p+1] = rapid.SampledFrom(specials).Draw(t, label+"_a2")
		}
	case 3: // all one special byte
		b := rapid.SampledFrom(specials).Draw(t, label+"_one")
		for i := range out {
			out[i] = b
		}
	case 4: // ascii-ish
		for i := range out {
			out[i] = byte(rapid.IntRange(0x20, 0x7e).Draw(t, label+"_c"))
		}
	default: // sparse specials
		copy(out, rapid.SliceOfN(rapid.Byte(), n, n).Draw(t, label))
		k := rapid.IntRange(1, 4).Draw(t, label+"_k")
		for j := 0; j < k; j++ {
			out[rapid.IntRange(0, n-1).Draw(t, label+"_p")] = rapid.SampledFrom(specials).Draw(t, label+"_sp")
		}
	}
	return out
}

func genBodyLen(t *rapid.T, label string) int {
	switch rapid.IntRange(0, 9).Draw(t, label+"_k") {
	case 0:
		return rapid.SampledFrom([]int{0, 1, 2, 3, 998, 999, 1000, 1001, 1022, 1023}).Draw(t, label)
	case 1, 2:
		return rapid.IntRange(0, 1023).Draw(t, label)
	default:
		return rapid.IntRange(0, 64).Draw(t, label)
	}
}

// specCase is the JSON form of a frame to build with the reference builder.
type specCase struct {
	ID          uint16  `json:"id"`
	Version2019 bool    `json:"v2019"`
	VersionByte byte    `json:"version_byte"`
	Fragmented  bool    `json:"fragmented"`
	Encrypt     bool    `json:"encrypt"`
	Phone       kit.Hex `json:"phone_bcd"`
	Serial      uint16  `json:"serial"`
	Total       uint16  `json:"total"`
	No          uint16  `json:"no"`
	Body        kit.Hex `json:"body"`
}

func (s specCase) Spec() ref.Spec {
	return ref.Spec{ID: s.ID, Version2019: s.Version2019, VersionByte: s.VersionByte, Fragmented: s.Fragmented,
		Encrypt: s.Encrypt, PhoneBCD: s.Phone, Serial: s.Serial, Total: s.Total, No: s.No, Body: s.Body}
}

func genSpec(t *rapid.T, label string, bodyLen int) specCase {
	s := specCase{}
	s.ID = genU16(t, label+"_id")
	s.Version2019 = rapid.Bool().Draw(t, label+"_v2019")
	if s.Version2019 {
		s.VersionByte = rapid.SampledFrom([]byte{1, 1, 1, 0, 2, 0x7e, 0x7d, 0xff}).Draw(t, label+"_vb")
	}
	s.Fragmented = rapid.IntRange(0, 3).Draw(t, label+"_frag") == 0
	s.Encrypt = rapid.IntRange(0, 3).Draw(t, label+"_enc") == 0
	n := 6
	if s.Version2019 {
		n = 10
	}
	s.Phone = genPhoneBytes(t, n, label+"_phone")
	s.Serial = genU16(t, label+"_serial")
	if s.Fragmented {
		s.Total = uint16(rapid.IntRange(1, 300).Draw(t, label+"_total"))
		s.No = uint16(rapid.IntRange(1, int(s.Total)).Draw(t, label+"_no"))
	}
	s.Body = genBytes(t, bodyLen, label+"_body")
	return s
}

func countSpecial(b []byte) int {
	n := 0
	for _, v := range b {
		if v == 0x7e || v == 0x7d {
			n++
		}
	}
	return n
}

func hexDecode(s string) ([]byte, error) { return hex.DecodeString(s) }
