package pure

import (
	"bytes"
	"encoding/hex"
	"fmt"
	"testing"

	"verif/harness/kit"
	"verif/harness/ref"

	"github.com/cuteLittleDevil/go-jt808/protocol/jt808"
	"github.com/cuteLittleDevil/go-jt808/shared/consts"
	"github.com/cuteLittleDevil/go-jt808/terminal"
	"pgregory.net/rapid"
)

// C20 (codec part): every frame the terminal simulator generates decodes to the right command, phone, version
// layout and consecutive serial; default bodies parse with the matching model type and re-encode identically;
// custom bodies come back byte-identical.

type c20Step struct {
	Cmd    uint16  `json:"cmd"`
	Custom bool    `json:"custom_body"`
	Body   kit.Hex `json:"body,omitempty"`
}

type c20Case struct {
	Version int       `json:"version"` // 1 = 2011, 2 = 2013, 3 = 2019
	Phone   string    `json:"phone"`
	Steps   []c20Step `json:"steps"`
	// Neighbours are further simulated terminals created after this one and used in between its steps: every
	// terminal's frames carry its own phone whatever other terminals exist in the process.
	Neighbours []c20Neighbour `json:"neighbours,omitempty"`
}

type c20Neighbour struct {
	Version int    `json:"version"`
	Phone   string `json:"phone"`
}

var simCommands = map[uint16]string{0x0001: "T0x0001", 0x0002: "T0x0002", 0x0100: "T0x0100", 0x0102: "T0x0102", 0x0200: "T0x0200", 0x0704: "T0x0704",
	0x1003: "T0x1003", 0x1205: "T0x1205", 0x1206: "T0x1206", 0x8001: "P0x8001", 0x8003: "P0x8003", 0x8100: "P0x8100", 0x8104: "P0x8104", 0x8801: "P0x8801",
	0x9003: "P0x9003", 0x9101: "P0x9101", 0x9102: "P0x9102", 0x9201: "P0x9201", 0x9205: "P0x9205", 0x9206: "P0x9206", 0x9207: "P0x9207",
	0x1210: "T0x1210", 0x1211: "T0x1211", 0x1212: "T0x1212"}

var simCommandList = func() []uint16 {
	var out []uint16
	for k := range simCommands {
		out = append(out, k)
	}
	for i := 1; i < len(out); i++ {
		for j := i; j > 0 && out[j] < out[j-1]; j-- {
			out[j], out[j-1] = out[j-1], out[j]
		}
	}
	return out
}()

// phoneWithChecksum searches (deterministically from a drawn start) a phone whose template checksum is target.
func templateChecksum(version int, digits string) byte {
	s := ref.Spec{ID: 0x0002, PhoneBCD: ref.PhoneBCDFromDigits(digits, 6), Serial: 0}
	if version == 3 {
		s = ref.Spec{ID: 0x0002, Version2019: true, VersionByte: 1, PhoneBCD: ref.PhoneBCDFromDigits(digits, 10), Serial: 2}
	}
	raw := s.Raw()
	return raw[len(raw)-1]
}

func genC20(t *rapid.T) c20Case {
	c := c20Case{Version: rapid.IntRange(1, 3).Draw(t, "version")}
	maxDigits := 12
	if c.Version == 3 {
		maxDigits = 20
	}
	switch rapid.IntRange(0, 5).Draw(t, "phone_kind") {
	case 0:
		c.Phone = "0"
	case 1:
		c.Phone = rapid.StringMatching(fmt.Sprintf("[0-9]{1,%d}", maxDigits)).Draw(t, "phone_any")
	case 2, 3: // template checksum needs escaping: flip the last digits until the checksum is 7e / 7d
		target := rapid.SampledFrom([]byte{0x7e, 0x7d}).Draw(t, "chk_target")
		start := rapid.IntRange(0, 99999).Draw(t, "phone_start")
		c.Phone = fmt.Sprintf("138%08d", start)
		for i := 0; i < 5000; i++ {
			p := fmt.Sprintf("138%08d", (start+i)%100000000)
			if templateChecksum(c.Version, p) == target {
				c.Phone = p
				break
			}
		}
	default:
		c.Phone = rapid.StringMatching(fmt.Sprintf("[1-9][0-9]{%d}", maxDigits-1)).Draw(t, "phone_full")
	}
	for i, k := 0, rapid.SampledFrom([]int{0, 0, 1, 2, 3}).Draw(t, "neighbours"); i < k; i++ {
		nb := c20Neighbour{Version: rapid.IntRange(1, 3).Draw(t, "nb_version")}
		if rapid.Bool().Draw(t, "nb_same_version") {
			nb.Version = c.Version
		}
		nb.Phone = rapid.StringMatching("[1-9][0-9]{3,11}").Draw(t, "nb_phone")
		c.Neighbours = append(c.Neighbours, nb)
	}
	n := rapid.IntRange(1, 12).Draw(t, "steps")
	if rapid.IntRange(0, 19).Draw(t, "long") == 0 {
		n = rapid.IntRange(100, 200).Draw(t, "steps_long")
	}
	for i := 0; i < n; i++ {
		s := c20Step{Cmd: rapid.SampledFrom(simCommandList).Draw(t, "cmd")}
		if rapid.IntRange(0, 3).Draw(t, "custom") == 0 {
			s.Custom = true
			s.Body = genBytes(t, genBodyLen(t, "len"), "body")
		}
		c.Steps = append(c.Steps, s)
	}
	return c
}

func checkC20(c c20Case, _ *kit.Collector) kit.Result {
	res := kit.Result{}
	ver := consts.ProtocolVersionType(c.Version)
	term := terminal.New(terminal.WithHeader(ver, c.Phone))
	chk := templateChecksum(c.Version, c.Phone)
	res.Labels = []string{fmt.Sprintf("version_%d", c.Version)}
	if chk == 0x7e || chk == 0x7d {
		res.Labels = append(res.Labels, "template_checksum_escaped")
	}
	maxDigits := 12
	if c.Version == 3 {
		maxDigits = 20
	}
	if len(c.Phone) < maxDigits {
		res.Labels = append(res.Labels, "phone_padded")
	}
	res.NT = (len(c.Phone) < maxDigits || chk == 0x7e || chk == 0x7d) && len(c.Steps) >= 2
	prevSerial := -1
	var others []*terminal.Terminal
	for _, nb := range c.Neighbours {
		others = append(others, terminal.New(terminal.WithHeader(consts.ProtocolVersionType(nb.Version), nb.Phone)))
	}
	if len(others) > 0 {
		res.Labels = append(res.Labels, "neighbour_terminals")
	}
	for i, s := range c.Steps {
		if len(others) > 0 {
			k := i % len(others)
			nf, why := ref.Validate(others[k].CreateDefaultCommandData(consts.JT808CommandType(0x0002)))
			if why != "" || ref.StripZeros(ref.PhoneDigits(nf.PhoneBCD)) != ref.StripZeros(c.Neighbours[k].Phone) || int(nf.Serial) != i/len(others)+1 {
				res.Err = kit.Fail("neighbour terminal %d (version %d, phone %q), its frame number %d: %s phone %x serial %d", k, c.Neighbours[k].Version, c.Neighbours[k].Phone, i/len(others)+1, why, nf.PhoneBCD, nf.Serial)
				return res
			}
		}
		var data []byte
		if s.Custom {
			data = term.CreateCommandData(consts.JT808CommandType(s.Cmd), append([]byte(nil), s.Body...))
			res.Labels = append(res.Labels, "custom_body")
		} else {
			data = term.CreateDefaultCommandData(consts.JT808CommandType(s.Cmd))
		}
		where := fmt.Sprintf("step %d (cmd %#04x, version %d, phone %q)", i, s.Cmd, c.Version, c.Phone)
		if data == nil {
			res.Err = kit.Fail("%s: simulator produced no frame", where)
			return res
		}
		msg := jt808.NewJTMessage()
		if err := msg.Decode(exact(data)); err != nil {
			res.Err = kit.Fail("%s: frame %x rejected by Decode: %v", where, head(data), err)
			return res
		}
		f, why := ref.Validate(data)
		if why != "" {
			res.Err = kit.Fail("%s: frame %x rejected by the reference decoder: %s", where, head(data), why)
			return res
		}
		if f.ID != s.Cmd || msg.Header.ID != s.Cmd {
			res.Err = kit.Fail("%s: frame carries ID %#04x", where, f.ID)
			return res
		}
		if ref.StripZeros(ref.PhoneDigits(f.PhoneBCD)) != ref.StripZeros(c.Phone) || ref.StripZeros(msg.Header.TerminalPhoneNo) != ref.StripZeros(c.Phone) {
			res.Err = kit.Fail("%s: frame carries phone %x / %q", where, f.PhoneBCD, msg.Header.TerminalPhoneNo)
			return res
		}
		if c.Version == 3 {
			if !f.Version2019 || len(f.PhoneBCD) != 10 || f.VersionByte != 1 {
				res.Err = kit.Fail("%s: not the 2019 header layout (version bit %v, version byte %d)", where, f.Version2019, f.VersionByte)
				return res
			}
		} else if f.Version2019 || len(f.PhoneBCD) != 6 {
			res.Err = kit.Fail("%s: not the 2013 header layout", where)
			return res
		}
		if f.Fragmented {
			res.Err = kit.Fail("%s: fragment bit set", where)
			return res
		}
		if prevSerial >= 0 && int(f.Serial) != (prevSerial+1)&0xffff {
			res.Err = kit.Fail("%s: serial %d after %d", where, f.Serial, prevSerial)
			return res
		}
		if prevSerial < 0 && f.Serial != 1 {
			res.Err = kit.Fail("%s: first serial is %d, want 1 (one greater than the initial 0)", where, f.Serial)
			return res
		}
		prevSerial = int(f.Serial)
		if s.Custom {
			if !bytes.Equal(f.Body, s.Body) || !bytes.Equal(msg.Body, s.Body) {
				res.Err = kit.Fail("%s: custom body came back as %x, want %x", where, head(f.Body), head(s.Body))
				return res
			}
			continue
		}
		v := newModel(simCommands[s.Cmd], 0)
		if err := v.Parse(msg); err != nil {
			res.Err = kit.Fail("%s: default body %x does not parse with %s: %v", where, head(msg.Body), simCommands[s.Cmd], err)
			return res
		}
		if re := v.Encode(); !bytes.Equal(re, msg.Body) {
			res.Err = kit.Fail("%s: body re-encodes to %x, frame has %x", where, head(re), head(msg.Body))
			return res
		}
		// the predicted platform reply is itself a well-formed frame for the same terminal
		rep := term.ExpectedReply(uint16(i), hex.EncodeToString(data))
		if rf, why := ref.Validate(rep); why != "" || !bytes.Equal(rf.PhoneBCD, f.PhoneBCD) || rf.Version2019 != f.Version2019 || int(rf.Serial) != i&0xffff {
			res.Err = kit.Fail("%s: ExpectedReply gives %x (%s)", where, head(rep), why)
			return res
		}
	}
	return res
}

func TestC20(t *testing.T) {
	kit.Run(t, kit.Prop[c20Case]{ID: "C20", Part: "TestC20", Gen: genC20, Check: checkC20})
}

// TestC20Wrap: one sequence of 65 540 frames per version (serial wrap-around), thorough tier.
func TestC20Wrap(t *testing.T) {
	kit.Enum(t, "C20", "TestC20Wrap", "TestC20", func(col *kit.Collector) (any, error) {
		shard, _ := kit.Shard()
		version := shard%3 + 1
		c := c20Case{Version: version, Phone: "13800138000"}
		for i := 0; i < 65540; i++ {
			c.Steps = append(c.Steps, c20Step{Cmd: 0x0002})
		}
		res := checkC20(c, col)
		res.NT = true
		col.RecordHash(uint64(version), res, func() any { return map[string]any{"version": version, "frames": 65540} })
		col.RecordHash(uint64(version+10), kit.Result{NT: true, Labels: []string{"serial_wrap"}}, nil)
		if res.Err != nil {
			return c20Case{Version: version, Phone: c.Phone, Steps: c.Steps[:3]}, res.Err
		}
		return nil, nil
	})
}
