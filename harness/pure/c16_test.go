package pure

import (
	"fmt"
	"testing"

	"verif/harness/kit"
	"verif/harness/ref"

	"github.com/cuteLittleDevil/go-jt808/attachment"
	"github.com/cuteLittleDevil/go-jt808/protocol/jt808"
	"github.com/cuteLittleDevil/go-jt808/protocol/model"
	"pgregory.net/rapid"
)

// C16 (pure part): Package.StatisticalMissSegments == complement of the received ranges.

type c16Case struct {
	Size uint32      `json:"file_size"`
	Got  []ref.Range `json:"received"` // pairwise disjoint, any order
}

func genC16(t *rapid.T) c16Case {
	c := c16Case{}
	switch rapid.IntRange(0, 9).Draw(t, "size_k") {
	case 0:
		c.Size = uint32(rapid.Uint64Range(1<<32-70000, 1<<32-1).Draw(t, "size_big"))
	case 1, 2:
		c.Size = uint32(rapid.IntRange(1, 1<<20).Draw(t, "size"))
	default:
		c.Size = uint32(rapid.IntRange(1, 64).Draw(t, "size_small"))
	}
	// draw cut points, then decide per cell whether it was received
	maxCuts := 40
	if rapid.IntRange(0, 19).Draw(t, "many") == 0 {
		maxCuts = 600
	}
	n := rapid.IntRange(0, maxCuts).Draw(t, "cuts")
	pts := map[uint32]bool{0: true, c.Size: true}
	for i := 0; i < n; i++ {
		var p uint32
		if c.Size > 1<<24 && rapid.Bool().Draw(t, "near_end") {
			p = c.Size - uint32(rapid.IntRange(0, 65536).Draw(t, "p_end"))
		} else {
			p = uint32(rapid.Uint64Range(0, uint64(c.Size)).Draw(t, "p"))
		}
		pts[p] = true
	}
	sorted := make([]uint32, 0, len(pts))
	for p := range pts {
		sorted = append(sorted, p)
	}
	sortU32(sorted)
	mode := rapid.IntRange(0, 4).Draw(t, "mode")
	for i := 0; i+1 < len(sorted); i++ {
		recv := false
		switch mode {
		case 0:
			recv = true
		case 1:
			recv = rapid.IntRange(0, 9).Draw(t, "r") < 8
		case 2:
			recv = i%2 == 0
		default:
			recv = rapid.Bool().Draw(t, "r")
		}
		if recv {
			c.Got = append(c.Got, ref.Range{Off: sorted[i], Len: sorted[i+1] - sorted[i]})
		}
	}
	// arrival (map insertion) order
	if len(c.Got) > 1 {
		perm := rapid.Permutation(c.Got).Draw(t, "order")
		c.Got = perm
	}
	return c
}

func sortU32(a []uint32) {
	for i := 1; i < len(a); i++ {
		for j := i; j > 0 && a[j] < a[j-1]; j-- {
			a[j], a[j-1] = a[j-1], a[j]
		}
	}
}

func checkC16(c c16Case, _ *kit.Collector) kit.Result {
	res := kit.Result{}
	p := &attachment.Package{FileName: "f", FileSize: c.Size, OffsetRecord: map[int]int{}, OffsetDataRecord: map[int][]byte{}}
	var sum uint64
	for _, r := range c.Got {
		p.OffsetRecord[int(r.Off)] = int(r.Len)
		sum += uint64(r.Len)
	}
	p.CurrentSize = uint32(sum)
	got := p.StatisticalMissSegments()
	want := ref.Complement(c.Size, c.Got)
	gaps := len(want)
	res.Labels = []string{fmt.Sprintf("gaps_%s", bucketN(gaps))}
	if gaps > 0 && want[0].Off == 0 {
		res.Labels = append(res.Labels, "gap_at_start")
	}
	if gaps > 0 && uint64(want[gaps-1].Off)+uint64(want[gaps-1].Len) == uint64(c.Size) {
		res.Labels = append(res.Labels, "gap_at_end")
	}
	for _, g := range want {
		if g.Len == 1 {
			res.Labels = append(res.Labels, "single_byte_gap")
			break
		}
	}
	if c.Size > 1<<31 {
		res.Labels = append(res.Labels, "size_near_2^32")
	}
	res.NT = gaps >= 2
	if len(got) != len(want) {
		res.Err = kit.Fail("size %d received %v: got %d ranges %v, want %d ranges %v", c.Size, trim(c.Got), len(got), got, len(want), trim(want))
		return res
	}
	for i := range want {
		if got[i].DataOffset != want[i].Off || got[i].DataLength != want[i].Len {
			res.Err = kit.Fail("size %d received %v: range %d is (%d,%d), want (%d,%d)", c.Size, trim(c.Got), i, got[i].DataOffset, got[i].DataLength, want[i].Off, want[i].Len)
			return res
		}
	}
	if gaps <= 255 {
		// the completion response built from these ranges, read back with the library's own 0x9212 parser
		t1212 := &model.T0x1212{P0x9212RetransmitPacketList: got}
		body, err := t1212.ReplyBody(&jt808.JTMessage{Header: &jt808.Header{ID: 0x1212}, Body: ref.Body1211([]byte("f"), 0, c.Size)})
		if err != nil {
			res.Err = kit.Fail("size %d received %v: T0x1212.ReplyBody: %v", c.Size, trim(c.Got), err)
			return res
		}
		var rp model.P0x9212
		if err := rp.Parse(&jt808.JTMessage{Header: &jt808.Header{ID: 0x9212}, Body: body}); err != nil {
			res.Err = kit.Fail("size %d, %d missing ranges: the completion response %x... is rejected by P0x9212.Parse: %v", c.Size, gaps, body[:min(len(body), 16)], err)
			return res
		}
		wantResult := byte(0)
		if gaps > 0 {
			wantResult = 1
		}
		if rp.UploadResult != wantResult || len(rp.P0x9212RetransmitPacketList) != gaps || int(rp.RetransmitPacketNumber) != gaps {
			res.Err = kit.Fail("size %d, %d missing ranges: completion response says result=%d count=%d with %d ranges", c.Size, gaps, rp.UploadResult, rp.RetransmitPacketNumber, len(rp.P0x9212RetransmitPacketList))
			return res
		}
		for i := range want {
			if x := rp.P0x9212RetransmitPacketList[i]; x.DataOffset != want[i].Off || x.DataLength != want[i].Len {
				res.Err = kit.Fail("size %d: completion response range %d is (%d,%d), want (%d,%d)", c.Size, i, x.DataOffset, x.DataLength, want[i].Off, want[i].Len)
				return res
			}
		}
		if gaps >= 32 {
			res.Labels = append(res.Labels, "response_with>=32_ranges")
		}
	}
	return res
}

func trim(r []ref.Range) []ref.Range {
	if len(r) > 12 {
		return r[:12]
	}
	return r
}

func bucketN(n int) string {
	switch {
	case n == 0:
		return "0"
	case n == 1:
		return "1"
	case n <= 3:
		return "2-3"
	case n <= 20:
		return "4-20"
	case n <= 255:
		return "21-255"
	}
	return ">255"
}

func TestC16(t *testing.T) {
	kit.Run(t, kit.Prop[c16Case]{ID: "C16", Part: "TestC16", Gen: genC16, Check: checkC16})
}

// TestC16Enum: all subsets of unit cells for every size <= 12 (exhaustive), cells merged into maximal runs
// or kept as unit chunks.
func TestC16Enum(t *testing.T) {
	kit.Enum(t, "C16", "TestC16Enum", "TestC16", func(col *kit.Collector) (any, error) {
		var space int64
		for size := 1; size <= 12; size++ {
			for mask := 0; mask < 1<<size; mask++ {
				for style := 0; style < 2; style++ {
					c := c16Case{Size: uint32(size)}
					for i := 0; i < size; i++ {
						if mask>>i&1 == 0 {
							continue
						}
						if style == 1 && len(c.Got) > 0 && c.Got[len(c.Got)-1].Off+c.Got[len(c.Got)-1].Len == uint32(i) {
							c.Got[len(c.Got)-1].Len++
						} else {
							c.Got = append(c.Got, ref.Range{Off: uint32(i), Len: 1})
						}
					}
					res := checkC16(c, col)
					space++
					col.RecordHash(kit.HashJSON(c), res, func() any { return c })
					if res.Err != nil {
						return c, res.Err
					}
				}
			}
		}
		col.SetExhaustive(true, space)
		return nil, nil
	})
}
