package pure

import (
	"bytes"
	"fmt"
	"os"
	"reflect"
	"sort"
	"strings"
	"testing"
	"time"

	"verif/harness/kit"
	"verif/harness/ref"

	"github.com/cuteLittleDevil/go-jt808/protocol/jt1078"
	"github.com/cuteLittleDevil/go-jt808/protocol/jt808"
	"github.com/cuteLittleDevil/go-jt808/protocol/model"
	"github.com/cuteLittleDevil/go-jt808/shared/consts"
	"pgregory.net/rapid"
)

// C03: decoders are total functions of their input (no panic, prompt, local to the slice, independent of
// the receiver's history, String total on success).

type c03Case struct {
	Target   string    `json:"target"`
	V2019    bool      `json:"header_2019"`
	Dialect  int       `json:"dialect,omitempty"`
	ExtID    byte      `json:"ext_id,omitempty"`
	Body     kit.Hex   `json:"body"`
	Prior    []kit.Hex `json:"prior_bodies_parsed_by_the_reused_receiver"`
	Origin   string    `json:"origin"`
	HookOnce bool      `json:"extension_hook_attached_once,omitempty"` // T0x0200+ext only
}

// meLocation is the README pattern: a 0x0200 handler with the five Su-Biao extension parsers.
type meLocation struct {
	model.T0x0200
	E64 model.T0x0200AdditionExtension0x64
	E65 model.T0x0200AdditionExtension0x65
	E66 model.T0x0200AdditionExtension0x66
	E67 model.T0x0200AdditionExtension0x67
	E70 model.T0x0200AdditionExtension0x70
	// once: the extension hook is attached when the handler is first used and never again (the pattern of the
	// repository's own tests); otherwise before every Parse (the README pattern)
	once, attached bool
}

func (l *meLocation) Parse(jtMsg *jt808.JTMessage) error {
	if l.once && l.attached {
		return l.T0x0200.Parse(jtMsg)
	}
	l.attached = true
	l.T0x0200.CustomAdditionContentFunc = func(id uint8, content []byte) (model.AdditionContent, bool) {
		switch id {
		case 0x64:
			return l.E64.Parse(id, content)
		case 0x65:
			return l.E65.Parse(id, content)
		case 0x66:
			return l.E66.Parse(id, content)
		case 0x67:
			return l.E67.Parse(id, content)
		case 0x70:
			return l.E70.Parse(id, content)
		}
		return model.AdditionContent{}, false
	}
	return l.T0x0200.Parse(jtMsg)
}

type extParser interface {
	Parse(id uint8, content []byte) (model.AdditionContent, bool)
	String() string
}

var extTargets = map[string]func() extParser{
	"ext64": func() extParser { return &model.T0x0200AdditionExtension0x64{} },
	"ext65": func() extParser { return &model.T0x0200AdditionExtension0x65{} },
	"ext66": func() extParser { return &model.T0x0200AdditionExtension0x66{} },
	"ext67": func() extParser { return &model.T0x0200AdditionExtension0x67{} },
	"ext70": func() extParser { return &model.T0x0200AdditionExtension0x70{} },
}
var extNominal = map[string]struct {
	id byte
	n  int
}{"ext64": {0x64, 47}, "ext65": {0x65, 47}, "ext66": {0x66, 41}, "ext67": {0x67, 41}, "ext70": {0x70, 47}}

var c03Targets = append(append([]string{}, allModelNames...), "ext64", "ext65", "ext66", "ext67", "ext70", "T0x0200+ext", "jt808.Decode", "jt1078.Decode")

// receiver is one parse target instance.
type receiver struct {
	target string
	obj    any
}

func newReceiver(c c03Case) *receiver {
	switch {
	case c.Target == "T0x0200+ext":
		return &receiver{c.Target, &meLocation{once: c.HookOnce}}
	case c.Target == "jt808.Decode":
		return &receiver{c.Target, jt808.NewJTMessage()}
	case c.Target == "jt1078.Decode":
		return &receiver{c.Target, jt1078.NewPacket()}
	case extTargets[c.Target] != nil:
		return &receiver{c.Target, extTargets[c.Target]()}
	}
	h := newModel(c.Target, c.Dialect)
	if h == nil {
		return nil
	}
	return &receiver{c.Target, h}
}

func header(id uint16, v2019 bool) *jt808.JTMessage {
	m, err := jtMsg(id, v2019, nil)
	if err != nil {
		panic("HARNESS-ERROR " + err.Error())
	}
	return m
}

// parse runs the target on data (the slice is passed as is) and returns success, an auxiliary result and an error-ness.
func (r *receiver) parse(c c03Case, data []byte) (ok bool, aux any) {
	switch o := r.obj.(type) {
	case *meLocation:
		m := header(0x0200, c.V2019)
		m.Body = data
		return o.Parse(m) == nil, nil
	case *jt808.JTMessage:
		return o.Decode(data) == nil, nil
	case *jt1078.Packet:
		remain, err := o.Decode(data)
		if err != nil {
			return false, nil
		}
		return true, len(remain)
	case extParser:
		content, ok := o.Parse(c.ExtID, data)
		if !ok {
			return false, nil
		}
		return true, content.Data
	case handler:
		m := header(uint16(o.Protocol()), c.V2019)
		m.Body = data
		return o.Parse(m) == nil, nil
	}
	panic("HARNESS-ERROR unknown receiver")
}

// outcome is the part of the receiver that constitutes the result of the parse. For the README
// meLocation pattern that is the embedded T0x0200 (whose Additions point at the extension structs
// filled by this parse); extension structs for items absent from this message legitimately keep
// whatever an earlier message put there and are reachable only through an earlier message's map.
func (r *receiver) outcome() any {
	if o, ok := r.obj.(*meLocation); ok {
		return &o.T0x0200
	}
	return r.obj
}

func (r *receiver) str() {
	switch o := r.obj.(type) {
	case *meLocation:
		_ = o.T0x0200.String()
		_ = o.T0x0200AdditionDetails.String()
		_ = o.E64.String() + o.E65.String() + o.E66.String() + o.E67.String() + o.E70.String()
	case *jt808.JTMessage:
		_ = o.Header.String()
	case *jt1078.Packet:
		_ = o.String()
	case extParser:
		_ = o.String()
	case handler:
		_ = o.String()
		switch v := o.(type) {
		case *model.T0x0200:
			_ = v.T0x0200AdditionDetails.String()
		case *model.T0x0704:
			for i := range v.Items {
				_ = v.Items[i].T0x0200AdditionDetails.String()
			}
		}
	}
}

// embed returns data placed in a larger buffer followed by filler bytes; the returned slice has spare capacity.
func embed(data []byte, filler byte) []byte {
	buf := make([]byte, len(data)+96)
	copy(buf, data)
	for i := len(data); i < len(buf); i++ {
		buf[i] = filler
	}
	return buf[:len(data)]
}

// ext66Overread reports whether content is a 0x66 item in the layout the current code accepts
// (40+9k bytes, k>=1, count byte == k): it then reads one byte past the item (known finding,
// pinned by the repository's own extension test, so not repairable).
func ext66Overread(content []byte) bool {
	n := len(content)
	return n >= 49 && (n-40)%9 == 0 && int(content[40]) == (n-40)/9
}

func c03KnownClass(c c03Case) string {
	if !kit.Known("C03-ext66-overread") {
		return ""
	}
	bodies := append([]kit.Hex{c.Body}, c.Prior...)
	for _, b := range bodies {
		switch c.Target {
		case "ext66":
			if c.ExtID == 0x66 && ext66Overread(b) {
				return "C03-ext66-overread"
			}
		case "T0x0200+ext":
			if len(b) > 28 {
				items, _ := ref.WalkItems(b[28:])
				for _, it := range items {
					if it.ID == 0x66 && ext66Overread(it.Content) {
						return "C03-ext66-overread"
					}
				}
			}
		}
	}
	return ""
}

func checkC03(c c03Case, _ *kit.Collector) kit.Result {
	res := kit.Result{}
	if newReceiver(c) == nil {
		res.Err = fmt.Errorf("HARNESS-ERROR unknown target %q", c.Target)
		return res
	}
	if k := c03KnownClass(c); k != "" {
		res.Excluded = k
		return res
	}
	// 1. fresh receiver, exact-capacity slice: any access beyond the slice panics
	r1 := newReceiver(c)
	ok1, aux1 := r1.parse(c, exact(c.Body))
	fp1 := ""
	if ok1 {
		fp1 = fingerprint(r1.outcome())
	}
	outcome := "rejected"
	if ok1 {
		outcome = "accepted"
	}
	res.Labels = []string{c.Target, kit.L(c.Target, outcome), "origin_" + c.Origin}
	if c.Dialect > 1 {
		res.Labels = append(res.Labels, kit.L(c.Target, fmt.Sprintf("dialect%d", c.Dialect)))
	}
	if len(c.Prior) > 0 {
		res.Labels = append(res.Labels, "reused_receiver")
	}
	res.NT = ok1 || c.Origin != "raw"
	// 2. locality: same bytes inside bigger buffers with different trailing bytes
	for _, filler := range []byte{0x00, 0xff} {
		r := newReceiver(c)
		ok, aux := r.parse(c, embed(c.Body, filler))
		if ok != ok1 {
			res.Err = kit.Fail("%s: outcome depends on memory behind the slice: exact-capacity input %s, same bytes followed by %#02x.. %v", c.Target, outcome, filler, map[bool]string{true: "accepted", false: "rejected"}[ok])
			return res
		}
		if ok {
			if d := diffFull(r1.outcome(), r.outcome()); d != "" {
				res.Err = kit.Fail("%s: result depends on memory behind the slice (trailing %#02x..) at %s", c.Target, filler, d)
				return res
			}
			if d := diffFull(&aux1, &aux); d != "" {
				res.Err = kit.Fail("%s: returned data depends on memory behind the slice at %s", c.Target, d)
				return res
			}
		}
	}
	// 3. history independence: a receiver that parsed other bodies before
	if len(c.Prior) > 0 {
		r := newReceiver(c)
		for _, p := range c.Prior {
			func() {
				defer func() { _ = recover() }() // a panic on a prior body is that body's own case
				r.parse(c, exact(p))
			}()
		}
		ok, _ := r.parse(c, exact(c.Body))
		if ok != ok1 {
			res.Err = kit.Fail("%s: a receiver that had parsed %d other bodies %s the body a fresh receiver %s", c.Target, len(c.Prior), map[bool]string{true: "accepts", false: "rejects"}[ok], outcome)
			return res
		}
		if ok {
			if d := diffFull(r1.outcome(), r.outcome()); d != "" {
				res.Err = kit.Fail("%s: reused receiver differs from a fresh one at %s (prior bodies: %d)", c.Target, d, len(c.Prior))
				return res
			}
			r.str()
		}
	}
	// 4. the value obtained in step 1 is a function of its bytes for good: decoding other input into other
	// receivers afterwards (on this goroutine) leaves it as it was (fp1 was taken right after step 1)
	if ok1 {
		others := [][]byte{c02PriorFrame, c.Body}
		for _, p := range c.Prior {
			others = append(others, p)
		}
		for _, p := range others {
			func() {
				defer func() { _ = recover() }()
				newReceiver(c).parse(c, exact(p))
				if c.Target != "jt808.Decode" {
					_ = jt808.NewJTMessage().Decode(exact(c02PriorFrame))
				}
			}()
		}
		if fp2 := fingerprint(r1.outcome()); fp2 != fp1 {
			res.Err = kit.Fail("%s: the value decoded first changed while other input was decoded into other receivers: %s", c.Target, firstDifference(fp1, fp2))
			return res
		}
	}
	// 5. String is total on success (last: some String methods go through Encode, which may normalise the value)
	if ok1 {
		r1.str()
	}
	return res
}

// fingerprint renders every leaf reachable from v (through pointers, unexported fields included) as text.
func fingerprint(v any) string {
	var sb strings.Builder
	var walk func(x reflect.Value, depth int)
	walk = func(x reflect.Value, depth int) {
		if depth > 12 {
			return
		}
		switch x.Kind() {
		case reflect.Ptr, reflect.Interface:
			if x.IsNil() {
				sb.WriteString("nil;")
				return
			}
			walk(x.Elem(), depth+1)
		case reflect.Struct:
			sb.WriteString("{")
			for i := 0; i < x.NumField(); i++ {
				if x.Field(i).Kind() == reflect.Func {
					continue
				}
				sb.WriteString(x.Type().Field(i).Name + ":")
				walk(x.Field(i), depth+1)
			}
			sb.WriteString("}")
		case reflect.Slice, reflect.Array:
			fmt.Fprintf(&sb, "[%d:", x.Len())
			for i := 0; i < x.Len(); i++ {
				walk(x.Index(i), depth+1)
			}
			sb.WriteString("]")
		case reflect.Map:
			keys := x.MapKeys()
			// by underlying value: key types with a String method may render different keys alike
			ord := func(k reflect.Value) string {
				switch k.Kind() {
				case reflect.Uint, reflect.Uint8, reflect.Uint16, reflect.Uint32, reflect.Uint64:
					return fmt.Sprintf("%020d", k.Uint())
				case reflect.Int, reflect.Int8, reflect.Int16, reflect.Int32, reflect.Int64:
					return fmt.Sprintf("%020d", k.Int()+1<<62)
				case reflect.String:
					return k.String()
				}
				return fmt.Sprint(k)
			}
			sort.Slice(keys, func(i, j int) bool { return ord(keys[i]) < ord(keys[j]) })
			sb.WriteString("map[")
			for _, k := range keys {
				sb.WriteString(ord(k) + "=")
				walk(x.MapIndex(k), depth+1)
			}
			sb.WriteString("]")
		case reflect.String:
			fmt.Fprintf(&sb, "%q;", x.String())
		case reflect.Bool:
			fmt.Fprintf(&sb, "%v;", x.Bool())
		case reflect.Int, reflect.Int8, reflect.Int16, reflect.Int32, reflect.Int64:
			fmt.Fprintf(&sb, "%d;", x.Int())
		case reflect.Uint, reflect.Uint8, reflect.Uint16, reflect.Uint32, reflect.Uint64, reflect.Uintptr:
			fmt.Fprintf(&sb, "%d;", x.Uint())
		case reflect.Float32, reflect.Float64:
			fmt.Fprintf(&sb, "%v;", x.Float())
		}
	}
	walk(reflect.ValueOf(v), 0)
	return sb.String()
}

func firstDifference(a, b string) string {
	i := 0
	for i < len(a) && i < len(b) && a[i] == b[i] {
		i++
	}
	lo := max(0, i-60)
	return fmt.Sprintf("before ...%s | after ...%s", a[lo:min(len(a), i+40)], b[lo:min(len(b), i+40)])
}

// ---------- generators ----------

func genRaw(t *rapid.T, label string) []byte {
	n := 0
	switch rapid.IntRange(0, 9).Draw(t, label+"_k") {
	case 0:
		n = rapid.IntRange(0, 4096).Draw(t, label+"_big")
	case 1, 2:
		n = rapid.IntRange(0, 300).Draw(t, label+"_mid")
	default:
		n = rapid.IntRange(0, 64).Draw(t, label+"_small")
	}
	if n > 400 {
		b := bytes.Repeat([]byte{rapid.Byte().Draw(t, label+"_fill")}, n)
		k := rapid.IntRange(0, 40).Draw(t, label+"_hn")
		copy(b, rapid.SliceOfN(rapid.Byte(), k, k).Draw(t, label+"_head"))
		return b
	}
	return rapid.SliceOfN(rapid.Byte(), n, n).Draw(t, label)
}

func mutate(t *rapid.T, b []byte, label string) []byte {
	b = append([]byte(nil), b...)
	steps := rapid.IntRange(1, 2).Draw(t, label+"_steps")
	for s := 0; s < steps; s++ {
		switch rapid.IntRange(0, 6).Draw(t, label+"_op") {
		case 0: // truncate
			if len(b) > 0 {
				b = b[:rapid.IntRange(0, len(b)-1).Draw(t, label+"_cut")]
			}
		case 1: // set one byte to an adversarial value
			if len(b) > 0 {
				i := rapid.IntRange(0, min(len(b)-1, 80)).Draw(t, label+"_i")
				b[i] = rapid.SampledFrom([]byte{0, 1, 0xff, 0xfe, 0x80, b[i] + 1, b[i] - 1, 240, 200}).Draw(t, label+"_v")
			}
		case 2: // extend
			n := rapid.IntRange(1, 12).Draw(t, label+"_ext")
			b = append(b, rapid.SliceOfN(rapid.Byte(), n, n).Draw(t, label+"_extb")...)
		case 3: // drop a chunk
			if len(b) > 2 {
				i := rapid.IntRange(0, len(b)-2).Draw(t, label+"_di")
				n := rapid.IntRange(1, min(len(b)-i, 30)).Draw(t, label+"_dn")
				b = append(b[:i:i], b[i+n:]...)
			}
		case 4: // duplicate a chunk
			if len(b) > 1 {
				i := rapid.IntRange(0, len(b)-1).Draw(t, label+"_ui")
				n := rapid.IntRange(1, min(len(b)-i, 30)).Draw(t, label+"_un")
				b = append(b[:i+n:i+n], b[i:]...)
			}
		case 5: // tail bytes to a constant
			if len(b) > 0 {
				i := rapid.IntRange(0, len(b)-1).Draw(t, label+"_ti")
				v := rapid.SampledFrom([]byte{0, 0xff}).Draw(t, label+"_tv")
				for k := i; k < len(b); k++ {
					b[k] = v
				}
			}
		default: // big-endian 16-bit field bump
			if len(b) > 1 {
				i := rapid.IntRange(0, min(len(b)-2, 60)).Draw(t, label+"_wi")
				if rapid.Bool().Draw(t, label+"_wrap") {
					// add a multiple of 2^k to a 16-bit count so that count*2 / *4 / *8 wraps in 16-bit (or 8-bit) arithmetic
					b[i] += rapid.SampledFrom([]byte{0x40, 0x80, 0xc0, 0x20, 0x10}).Draw(t, label+"_wadd")
				} else {
					w := rapid.SampledFrom([][2]byte{{0, 0}, {0, 1}, {0xff, 0xff}, {0x01, 0x00}, {0, 0x1f}, {0x40, 0x00}, {0x80, 0x00}}).Draw(t, label+"_wv")
					b[i], b[i+1] = w[0], w[1]
				}
			}
		}
	}
	return b
}

// validBody draws a structurally valid body for the target (and sets version/dialect/ext id in c).
func validBody(t *rapid.T, c *c03Case, label string) []byte {
	switch {
	case c.Target == "jt808.Decode":
		return genSpec(t, label+"_f", rapid.IntRange(0, 40).Draw(t, label+"_bl")).Spec().Build()
	case c.Target == "jt1078.Decode":
		n := rapid.IntRange(1, 3).Draw(t, label+"_np")
		var b []byte
		for i := 0; i < n; i++ {
			b = append(b, genRTP(t).ref().Bytes()...)
		}
		return b
	case extTargets[c.Target] != nil:
		nom := extNominal[c.Target]
		n := nom.n
		if c.Target == "ext66" {
			n = 41 + 9*rapid.IntRange(0, 3).Draw(t, label+"_cnt")
		}
		b := rapid.SliceOfN(rapid.Byte(), n, n).Draw(t, label+"_ext")
		if c.Target == "ext66" {
			b[40] = byte((n - 41) / 9)
			if rapid.IntRange(0, 3).Draw(t, label+"_alt66") == 0 { // the layout the current code expects: 40+9k bytes
				b = b[:n-1]
			}
		}
		return b
	case c.Target == "T0x0200+ext" || c.Target == "T0x0200":
		b := genBase(t, label+"_base")
		b = append(b, genItems(t, label+"_items", 6, true)...)
		if c.Target == "T0x0200+ext" {
			k := rapid.IntRange(0, 3).Draw(t, label+"_nx")
			for i := 0; i < k; i++ {
				name := rapid.SampledFrom([]string{"ext64", "ext65", "ext66", "ext67", "ext70"}).Draw(t, label+"_xn")
				sub := c03Case{Target: name}
				x := validBody(t, &sub, label+"_x")
				b = append(b, extNominal[name].id, byte(len(x)))
				b = append(b, x...)
			}
		}
		return b
	case c.Target == "T0x0704":
		n := rapid.IntRange(1, 4).Draw(t, label+"_n")
		b := []byte{0, byte(n), 0}
		for i := 0; i < n; i++ {
			it := append(genBase(t, label+"_b"), genItems(t, label+"_it", 4, true)...)
			b = append(b, byte(len(it)>>8), byte(len(it)))
			b = append(b, it...)
		}
		return b
	case c.Target == "T0x0104":
		m := genModelValue(t, "P0x8103")
		v, _ := decodeModelValue(m)
		enc := v.Encode()
		return append([]byte{0, 7, enc[0]}, enc[1:]...)
	}
	m := genModelValue(t, c.Target)
	c.V2019, c.Dialect = m.V2019, m.Dialect
	v, err := decodeModelValue(m)
	if err != nil {
		panic(err)
	}
	return v.Encode()
}

func genC03For(target string) func(t *rapid.T) c03Case {
	return func(t *rapid.T) c03Case {
		c := c03Case{Target: target, V2019: rapid.Bool().Draw(t, "hdr2019")}
		if target == "T0x0200+ext" {
			c.HookOnce = rapid.Bool().Draw(t, "hook_once")
		}
		if usesDialect(target) {
			c.Dialect = rapid.IntRange(1, 5).Draw(t, "dialect")
		}
		if nom, ok := extNominal[target]; ok {
			c.ExtID = nom.id
			if rapid.IntRange(0, 9).Draw(t, "wrong_ext_id") == 0 {
				c.ExtID = rapid.Byte().Draw(t, "ext_id")
			}
		}
		one := func(label string) ([]byte, string) {
			switch rapid.IntRange(0, 9).Draw(t, label+"_origin") {
			case 0, 1:
				return genRaw(t, label+"_raw"), "raw"
			case 2, 3, 4:
				d, v := c.Dialect, c.V2019
				b := validBody(t, &c, label+"_valid")
				if usesDialect(target) && d != c.Dialect && label != "body" {
					c.Dialect, c.V2019 = d, v // keep the receiver's configuration fixed across prior bodies
				}
				return b, "valid"
			default:
				d, v := c.Dialect, c.V2019
				b := mutate(t, validBody(t, &c, label+"_valid"), label+"_mut")
				if target == "jt808.Decode" && rapid.Bool().Draw(t, label+"_refit") {
					// frames get past the check code only with a fitting one: take 0..n leading bytes of the mutated payload
					// (every short length, so that each header guard is met) and give them the right check code
					if pay, why := ref.Unescape(b); why == "" && len(pay) >= 1 {
						pay = pay[:len(pay)-1]
						if rapid.Bool().Draw(t, label+"_short") {
							pay = pay[:min(len(pay), rapid.IntRange(0, 24).Draw(t, label+"_keep"))]
						}
						b = ref.Escape(append(append([]byte{}, pay...), ref.Xor(pay)))
					}
				}
				if label != "body" {
					c.Dialect, c.V2019 = d, v
				}
				return b, "mutated"
			}
		}
		c.Body, c.Origin = one("body")
		np := rapid.SampledFrom([]int{0, 0, 1, 2, 3}).Draw(t, "n_prior")
		for i := 0; i < np; i++ {
			p, _ := one(fmt.Sprintf("prior%d", i))
			c.Prior = append(c.Prior, p)
		}
		return c
	}
}

func genC03(t *rapid.T) c03Case {
	target := rapid.SampledFrom(c03Targets).Draw(t, "target")
	if only := os.Getenv("VERIF_ONLY_TYPE"); only != "" {
		target = only
	}
	return genC03For(target)(t)
}

func TestC03(t *testing.T) {
	kit.Run(t, kit.Prop[c03Case]{ID: "C03", Part: "TestC03", Gen: genC03, Check: checkC03, Deadline: 10 * time.Second})
}

var _ = ref.Xor
var _ = consts.JT808Protocol2013

// FuzzC03: coverage-guided search for panics / non-local outcomes (thorough tier). The first two bytes
// select target, header version, dialect; the rest is the body.
func FuzzC03(f *testing.F) {
	kit.Quiet()
	for i := range c03Targets {
		f.Add([]byte{byte(i), 0, 0x31, 0x00})
		f.Add(append([]byte{byte(i), 3}, make([]byte, 64)...))
	}
	f.Fuzz(func(t *testing.T, data []byte) {
		if len(data) < 2 {
			return
		}
		c := c03Case{Target: c03Targets[int(data[0])%len(c03Targets)], V2019: data[1]&1 == 1, Origin: "fuzz", Body: data[2:]}
		if usesDialect(c.Target) {
			c.Dialect = int(data[1]>>1)%5 + 1
		}
		if nom, ok := extNominal[c.Target]; ok {
			c.ExtID = nom.id
		}
		if data[1]&0x80 != 0 && len(c.Body) > 4 { // split into a prior body and the body
			k := int(c.Body[0]) % (len(c.Body) - 1)
			c.Prior = []kit.Hex{c.Body[1 : 1+k]}
			c.Body = c.Body[1+k:]
		}
		if res := checkC03(c, nil); res.Err != nil {
			kit.FuzzReport("TestC03", c, res.Err)
			t.Fatalf("%v", res.Err)
		}
	})
}
