package ext

import (
	"encoding/binary"
	"fmt"
	"testing"
	"time"

	"verif/harness/kit"
	"verif/harness/ref"

	"github.com/cuteLittleDevil/go-jt808/protocol/jt808"
	"github.com/cuteLittleDevil/go-jt808/protocol/model"
	"github.com/cuteLittleDevil/go-jt808/shared/consts"
	"pgregory.net/rapid"
)

// C10 (in-process parts): no byte stream and no lifecycle may panic the code a connection goroutine runs.
// A: the attachment connection loop (real loop over net.Pipe, default and custom file handler).
// B: the JT808 extractor + the handlers the reader/writer goroutines call for every delivered message.

type c10aCase struct {
	Dialect int      `json:"dialect"`
	Stream  kit.Hex  `json:"stream"`
	Cuts    []int    `json:"write_cuts"`
	Default bool     `json:"default_file_handler"`
	Classes []string `json:"attack_classes"`
}

func mutateBytes(t *rapid.T, b []byte, label string) []byte {
	b = append([]byte(nil), b...)
	if len(b) == 0 {
		return b
	}
	switch rapid.IntRange(0, 4).Draw(t, label+"_op") {
	case 0:
		i := rapid.IntRange(0, len(b)-1).Draw(t, label+"_i")
		b[i] ^= 1 << rapid.IntRange(0, 7).Draw(t, label+"_bit")
	case 1:
		b = b[:rapid.IntRange(0, len(b)-1).Draw(t, label+"_cut")]
	case 2:
		i := rapid.IntRange(0, len(b)-1).Draw(t, label+"_i")
		b[i] = rapid.SampledFrom([]byte{0, 0xff, 0x7e, 0x7d, 1, 0x30}).Draw(t, label+"_v")
	case 3:
		i := rapid.IntRange(0, len(b)-1).Draw(t, label+"_i")
		b = append(b[:i:i], append(append([]byte(nil), b[i:]...), b[i:]...)...)
	default:
		i := rapid.IntRange(0, len(b)-1).Draw(t, label+"_i")
		n := rapid.IntRange(1, min(8, len(b)-i)).Draw(t, label+"_n")
		b = append(b[:i:i], b[i+n:]...)
	}
	return b
}

func genC10a(t *rapid.T) c10aCase {
	c := c10aCase{Dialect: rapid.IntRange(1, 5).Draw(t, "dialect"), Default: rapid.Bool().Draw(t, "default_handler")}
	base := genUpload(t, true)
	base.Dialect = c.Dialect
	var valid [][]byte
	for i, it := range base.Items {
		valid = append(valid, base.encode(it, uint16(100+i)))
	}
	frame := func(id uint16, body []byte) []byte {
		return ref.Spec{ID: id, PhoneBCD: phoneFor(false), Serial: 9, Body: body}.Build()
	}
	class := map[string]bool{}
	n := rapid.IntRange(0, 8).Draw(t, "items")
	for i := 0; i < n; i++ {
		switch rapid.IntRange(0, 11).Draw(t, "kind") {
		case 11: // a file announced with size 0 (or 1) and then chunks that carry more than that
			name := []byte("z.bin")
			size := uint32(rapid.IntRange(0, 1).Draw(t, "zsize"))
			c.Stream = append(c.Stream, frame(0x1210, ref.Body1210(c.Dialect, []byte("T"), []byte("A"), ref.AlarmSign(c.Dialect, []byte("T"), [6]byte{}, 0, 0), 0, []ref.AttachFile{{Name: name, Size: size}}))...)
			if rapid.Bool().Draw(t, "z1211") {
				c.Stream = append(c.Stream, frame(0x1211, ref.Body1211(name, 0, size))...)
			}
			for k, nc := 0, rapid.IntRange(1, 2).Draw(t, "zchunks"); k < nc; k++ {
				c.Stream = append(c.Stream, ref.Chunk(c.Dialect, name, uint32(k*10), rapid.SliceOfN(rapid.Byte(), 0, 30).Draw(t, "zdata"))...)
			}
			if rapid.Bool().Draw(t, "z1212") {
				c.Stream = append(c.Stream, frame(0x1212, ref.Body1211(name, 0, size))...)
			}
			class["announced_empty_file_then_data"] = true
		case 0:
			k := rapid.IntRange(1, 60).Draw(t, "rn")
			c.Stream = append(c.Stream, rapid.SliceOfN(rapid.Byte(), k, k).Draw(t, "random")...)
			class["random_bytes"] = true
		case 1, 2:
			c.Stream = append(c.Stream, valid[rapid.IntRange(0, len(valid)-1).Draw(t, "v")]...)
			class["valid_item"] = true
		case 3, 4:
			c.Stream = append(c.Stream, mutateBytes(t, valid[rapid.IntRange(0, len(valid)-1).Draw(t, "mv")], "mut")...)
			class["mutated_item"] = true
		case 5: // chunk header with adversarial name / offset / length
			name := []byte(base.Files[0].Name)
			if rapid.Bool().Draw(t, "unannounced") {
				name = []byte("nobody")
			}
			off := rapid.SampledFrom([]uint32{0, 1, uint32(base.Files[0].Size), 0xffffffff, 0x7fffffff}).Draw(t, "off")
			ln := rapid.SampledFrom([]uint32{0, 1, 16, 0xffffffff, 0x80000000, 65536}).Draw(t, "len")
			have := rapid.IntRange(0, 40).Draw(t, "have")
			h := ref.Chunk(c.Dialect, name, off, nil)
			binary.BigEndian.PutUint32(h[len(h)-4:], ln)
			c.Stream = append(c.Stream, h...)
			c.Stream = append(c.Stream, make([]byte, have)...)
			class["hostile_chunk_header"] = true
		case 6: // control frame with adversarial fields
			switch rapid.IntRange(0, 3).Draw(t, "ck") {
			case 0: // 0x1210 whose count exceeds its items / name length beyond the body
				b := ref.Body1210(c.Dialect, []byte("T"), []byte("A"), ref.AlarmSign(c.Dialect, []byte("T"), [6]byte{}, 0, 0), 0, []ref.AttachFile{{Name: []byte("f"), Size: 0xffffffff}})
				b[len(b)-7] = rapid.SampledFrom([]byte{0, 2, 0xff}).Draw(t, "count")
				b[len(b)-6] = rapid.SampledFrom([]byte{0, 1, 0xff, 200}).Draw(t, "namelen")
				if rapid.Bool().Draw(t, "long_entries") {
					// the count is over-declared by 1..3 while the entries that are present are long enough to satisfy any
					// "count x minimal entry size" plausibility test: the list ends exactly at the end of the body
					var files []ref.AttachFile
					for k, nf := 0, rapid.IntRange(1, 3).Draw(t, "real_entries"); k < nf; k++ {
						files = append(files, ref.AttachFile{Name: rapid.SliceOfN(rapid.ByteRange(0x61, 0x7a), 0, 24).Draw(t, "entry_name"), Size: uint32(rapid.IntRange(0, 70000).Draw(t, "entry_size"))})
					}
					b = ref.Body1210(c.Dialect, []byte("T"), []byte("A"), ref.AlarmSign(c.Dialect, []byte("T"), [6]byte{}, 0, 0), 0, files)
					tail := 0
					for _, f := range files {
						tail += 1 + len(f.Name) + 4
					}
					b[len(b)-tail-1] = byte(len(files) + rapid.IntRange(1, 3).Draw(t, "over_declared_by"))
				}
				c.Stream = append(c.Stream, frame(0x1210, b)...)
			case 1:
				c.Stream = append(c.Stream, frame(0x1211, ref.Body1211([]byte("ghost"), 0, rapid.SampledFrom([]uint32{0, 1, 0xffffffff}).Draw(t, "sz")))...)
			case 2:
				c.Stream = append(c.Stream, frame(0x1212, ref.Body1211([]byte("ghost"), 0, 5))...)
			default:
				c.Stream = append(c.Stream, frame(rapid.SampledFrom([]uint16{0x0002, 0x0200, 0x0100, 0x9212, 0xffff}).Draw(t, "otherid"), rapid.SliceOfN(rapid.Byte(), 0, 30).Draw(t, "otherbody"))...)
			}
			class["hostile_control_frame"] = true
		case 8: // a chunk header (any dialect) that stops a few bytes short of its end, as the only thing ever sent
			name := rapid.SliceOfN(rapid.ByteRange(0x41, 0x5a), 0, 52).Draw(t, "hname")
			h := ref.Chunk(c.Dialect, name, 0, nil)
			short := rapid.IntRange(1, 3).Draw(t, "short")
			if short < len(h) {
				h = h[:len(h)-short]
			}
			if len(c.Stream) == 0 || rapid.Bool().Draw(t, "alone") {
				c.Stream = h
			} else {
				c.Stream = append(c.Stream, h...)
			}
			class["chunk_header_cut_short"] = true
		case 7: // fragmented control frame (package fields present)
			s := ref.Spec{ID: 0x1210, PhoneBCD: phoneFor(false), Fragmented: true, Total: uint16(rapid.IntRange(0, 3).Draw(t, "tot")), No: uint16(rapid.IntRange(0, 4).Draw(t, "no")), Body: []byte{1, 2, 3}}
			c.Stream = append(c.Stream, s.Build()...)
			class["fragmented_control_frame"] = true
		case 9: // (a complete valid upload, below)
			fallthrough
		default: // a complete valid upload
			for _, v := range valid {
				c.Stream = append(c.Stream, v...)
			}
			class["valid_upload"] = true
		}
	}
	if len(c.Stream) == 0 {
		class["connect_and_close"] = true
	} else if rapid.IntRange(0, 2).Draw(t, "truncate") == 0 {
		c.Stream = c.Stream[:rapid.IntRange(0, len(c.Stream)-1).Draw(t, "close_at")]
		class["closed_mid_stream"] = true
	}
	if len(c.Stream) > 1 {
		k := rapid.IntRange(0, 6).Draw(t, "ncuts")
		for i := 0; i < k; i++ {
			c.Cuts = append(c.Cuts, rapid.IntRange(1, len(c.Stream)-1).Draw(t, "cut"))
		}
		sortInts(c.Cuts)
	}
	for k := range class {
		c.Classes = append(c.Classes, k)
	}
	sortStrings(c.Classes)
	return c
}

func sortInts(a []int) {
	for i := 1; i < len(a); i++ {
		for j := i; j > 0 && a[j] < a[j-1]; j-- {
			a[j], a[j-1] = a[j-1], a[j]
		}
	}
}
func sortStrings(a []string) {
	for i := 1; i < len(a); i++ {
		for j := i; j > 0 && a[j] < a[j-1]; j-- {
			a[j], a[j-1] = a[j-1], a[j]
		}
	}
}

func checkC10a(c c10aCase, _ *kit.Collector) kit.Result {
	res := kit.Result{Labels: append([]string{}, c.Classes...)}
	if c.Default {
		if err := enterSandbox(); err != nil {
			res.Err = fmt.Errorf("HARNESS-ERROR sandbox: %v", err)
			return res
		}
		_ = resetSandbox()
		res.Labels = append(res.Labels, "default_file_handler")
	} else {
		res.Labels = append(res.Labels, "custom_file_handler")
	}
	cuts := append(append([]int(nil), c.Cuts...), len(c.Stream))
	r := runStream(c.Dialect, c.Stream, cuts, 0, 0, c.Default)
	res.NT = len(r.events) > 1 || len(c.Stream) == 0 || len(c.Classes) > 0
	if r.panicked != "" {
		res.Err = kit.Fail("attachment connection goroutine would have crashed the server (no recover in attachment/service.go): %s", r.panicked)
		return res
	}
	// a fresh, well-behaved client is served correctly afterwards
	s := upScript{Dialect: c.Dialect, TerminalID: kit.Hex("T1"), AlarmID: kit.Hex("A1"), Files: []upFile{{Name: kit.Hex("ok.bin"), Size: 20, Seed: 7}},
		Items: []upItem{{Kind: "1210"}, {Kind: "1211"}, {Kind: "chunk", Off: 0, Len: 20}, {Kind: "1212"}}}
	if _, _, err := judgeUpload(s, runUpload(s), "C15"); err != nil {
		res.Err = kit.Fail("after the hostile session a well-behaved upload failed: %v", err)
	}
	return res
}

func TestC10Attach(t *testing.T) {
	defer func() {
		if sandboxRoot != "" {
			cleanupSandbox()
		}
	}()
	kit.Run(t, kit.Prop[c10aCase]{ID: "C10", Part: "TestC10Attach", Gen: genC10a, Check: checkC10a})
}

// ---------- B: extractor + handlers ----------

type c10bCase struct {
	Stream  kit.Hex  `json:"stream"`
	Cuts    []int    `json:"read_cuts"`
	Classes []string `json:"attack_classes"`
	Idle    []int    `json:"silent_for_6s_after_read,omitempty"` // read numbers (modulo the number of reads) after which the peer stays silent for 6 s: the next read runs the re-request path
}

// newHandlers mirrors service.createDefaultHandle: one model object per command per connection (reused).
func newHandlers() map[uint16]modelHandler {
	return map[uint16]modelHandler{
		0x0001: &model.T0x0001{}, 0x0100: &model.T0x0100{}, 0x0102: &model.T0x0102{}, 0x0002: &model.T0x0002{}, 0x0200: &model.T0x0200{},
		0x0704: &model.T0x0704{}, 0x0104: &model.T0x0104{}, 0x0805: &model.T0x0805{}, 0x0800: &model.T0x0800{}, 0x0801: &model.T0x0801{},
		0x8003: &model.P0x8003{}, 0x8103: &model.P0x8103{}, 0x8104: &model.P0x8104{}, 0x8801: &model.P0x8801{}, 0x9003: &model.P0x9003{},
		0x1003: &model.T0x1003{}, 0x1005: &model.T0x1005{}, 0x9101: &model.P0x9101{}, 0x9102: &model.P0x9102{}, 0x9205: &model.P0x9205{},
		0x1205: &model.T0x1205{}, 0x9206: &model.P0x9206{}, 0x1206: &model.T0x1206{}, 0x9207: &model.P0x9207{}, 0x9208: &model.P0x9208{},
		0x1210: &model.T0x1210{}, 0x1211: &model.T0x1211{}, 0x1212: &model.T0x1212{},
	}
}

type modelHandler interface {
	Parse(*jt808.JTMessage) error
	HasReply() bool
	ReplyBody(*jt808.JTMessage) ([]byte, error)
	ReplyProtocol() consts.JT808CommandType
	String() string
}

var supportedIDs = []uint16{0x0001, 0x0100, 0x0102, 0x0002, 0x0200, 0x0704, 0x0104, 0x0805, 0x0800, 0x0801, 0x8003, 0x8103, 0x8104, 0x8801, 0x9003, 0x1003,
	0x1005, 0x9101, 0x9102, 0x9205, 0x1205, 0x9206, 0x1206, 0x9207, 0x9208, 0x1210, 0x1211, 0x1212}

func genC10b(t *rapid.T) c10bCase {
	c := c10bCase{}
	class := map[string]bool{}
	n := rapid.IntRange(1, 8).Draw(t, "frames")
	for i := 0; i < n; i++ {
		v2019 := rapid.Bool().Draw(t, "v")
		id := rapid.SampledFrom(supportedIDs).Draw(t, "id")
		bl := rapid.IntRange(0, 80).Draw(t, "bl")
		body := rapid.SliceOfN(rapid.Byte(), bl, bl).Draw(t, "body")
		if rapid.Bool().Draw(t, "structured") && bl >= 3 {
			// count / length bytes at the places parsers look at
			for _, p := range []int{0, 1, 2, 3, 4, 5} {
				if p < bl && rapid.IntRange(0, 2).Draw(t, "adv") == 0 {
					body[p] = rapid.SampledFrom([]byte{0, 1, 2, 0xff, 0x7f, 240}).Draw(t, "advv")
				}
			}
		}
		s := ref.Spec{ID: id, Version2019: v2019, VersionByte: 1, PhoneBCD: phoneFor(v2019), Serial: uint16(i), Body: body}
		switch rapid.IntRange(0, 7).Draw(t, "kind") {
		case 0: // adversarial package fields
			s.Fragmented = true
			s.Total = rapid.SampledFrom([]uint16{0, 1, 2, 3, 0xffff, 256, 257, 300, 513}).Draw(t, "tot")
			s.No = rapid.SampledFrom([]uint16{0, 1, 2, 3, 4, 0xffff}).Draw(t, "no")
			class["hostile_package_numbers"] = true
			c.Stream = append(c.Stream, s.Build()...)
		case 1:
			c.Stream = append(c.Stream, mutateBytes(t, s.Build(), "mut")...)
			class["mutated_frame"] = true
		case 2:
			k := rapid.IntRange(1, 30).Draw(t, "rn")
			c.Stream = append(c.Stream, rapid.SliceOfN(rapid.Byte(), k, k).Draw(t, "random")...)
			class["random_bytes"] = true
		case 3:
			s.ID = rapid.SampledFrom([]uint16{0x0000, 0x7e7e, 0x0900, 0x8001, 0x8100, 0xffff}).Draw(t, "unk")
			c.Stream = append(c.Stream, s.Build()...)
			class["unsupported_id"] = true
		default:
			c.Stream = append(c.Stream, s.Build()...)
			class["valid_frame_hostile_body"] = true
		}
	}
	if rapid.IntRange(0, 3).Draw(t, "truncate") == 0 && len(c.Stream) > 1 {
		c.Stream = c.Stream[:rapid.IntRange(1, len(c.Stream)-1).Draw(t, "close_at")]
		class["closed_mid_frame"] = true
	}
	for i, n := 0, rapid.SampledFrom([]int{0, 0, 1, 2}).Draw(t, "idles"); i < n; i++ {
		c.Idle = append(c.Idle, rapid.IntRange(0, 20).Draw(t, "idle_after"))
	}
	k := rapid.IntRange(0, 6).Draw(t, "ncuts")
	if len(c.Idle) > 0 {
		k = max(k, 2)
		class["silence_between_reads"] = true
	}
	for i := 0; i < k && len(c.Stream) > 1; i++ {
		c.Cuts = append(c.Cuts, rapid.IntRange(1, len(c.Stream)-1).Draw(t, "cut"))
	}
	sortInts(c.Cuts)
	for k := range class {
		c.Classes = append(c.Classes, k)
	}
	sortStrings(c.Classes)
	return c
}

func checkC10b(c c10bCase, _ *kit.Collector) kit.Result {
	res := kit.Result{Labels: append([]string{}, c.Classes...)}
	fd := newFeeder(true)
	handlers := newHandlers() // per-connection, reused for every message like createDefaultHandle's
	accepted := 0
	reads := split(c.Stream, c.Cuts)
	for j, p := range reads {
		for _, at := range c.Idle {
			if j > 0 && at%len(reads) == j-1 {
				fd.ex.Advance(6 * time.Second)
			}
		}
		out, err := fd.feed(p)
		for _, d := range out {
			accepted++
			m := d.ptr
			h, ok := handlers[m.JTMessage.Header.ID]
			if !ok {
				continue
			}
			// what the README handlers do: parse every body, print on success
			if h.Parse(m.JTMessage) == nil {
				_ = h.String()
			}
			fresh := newHandlers()[m.JTMessage.Header.ID]
			if fresh.Parse(m.JTMessage) == nil {
				_ = fresh.String()
			}
			// what connection.defaultReplyEvent does for a complete message
			if d.sum == 0 || d.complete {
				if h.HasReply() {
					if body, err := h.ReplyBody(m.JTMessage); err == nil {
						hd := m.JTMessage.Header
						hd.ReplyID = uint16(h.ReplyProtocol())
						hd.PlatformSerialNumber = 1
						_ = hd.Encode(body)
					}
				}
			}
		}
		if err != nil {
			res.Labels = append(res.Labels, "connection_closed_on_error")
			break // the reader returns: only this connection ends
		}
	}
	fd.ex.Clear()
	if accepted > 0 {
		res.Labels = append(res.Labels, "frames_accepted")
	}
	res.NT = accepted > 0
	// a fresh connection (new extractor, new handlers) is served correctly
	fd2 := newFeeder(true)
	hb := frameSpec{ID: 0x0002, Phone: phoneFor(false), Serial: 77}
	out, err := fd2.feed(hb.bytes())
	if err != nil || len(out) != 1 || out[0].id != 0x0002 || out[0].serial != 77 {
		res.Err = kit.Fail("a fresh connection's heartbeat was not extracted after the hostile session: %v %v", out, err)
	}
	return res
}

func TestC10Extractor(t *testing.T) {
	kit.Run(t, kit.Prop[c10bCase]{ID: "C10", Part: "TestC10Extractor", Gen: genC10b, Check: checkC10b})
}

// FuzzC10Extractor: coverage-guided version of part B (thorough tier).
func FuzzC10Extractor(f *testing.F) {
	kit.Quiet()
	for _, id := range supportedIDs {
		s := ref.Spec{ID: id, PhoneBCD: phoneFor(false), Serial: 1, Body: make([]byte, 40)}
		f.Add(s.Build(), uint16(0))
		s.Fragmented, s.Total, s.No = true, 2, 0
		f.Add(s.Build(), uint16(7))
	}
	f.Fuzz(func(t *testing.T, data []byte, cut uint16) {
		c := c10bCase{Stream: data}
		if len(data) > 1 {
			c.Cuts = []int{int(cut)%(len(data)-1) + 1}
		}
		if res := checkC10b(c, nil); res.Err != nil {
			kit.FuzzReport("TestC10Extractor", c, res.Err)
			t.Fatalf("%v", res.Err)
		}
	})
}
