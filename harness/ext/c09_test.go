package ext

import (
	"sort"
	"testing"
	"time"

	"verif/harness/kit"

	"pgregory.net/rapid"
)

// C09 (extractor level): every message handed out by the extractor keeps the content it had at delivery,
// whatever is read afterwards into the same receive buffer and after the connection's cleanup ran.

type c09Case struct {
	Plain  *c04Case    `json:"plain_stream,omitempty"`
	Frag   *c05Case    `json:"fragmented_history,omitempty"`
	Tail   []frameSpec `json:"later_traffic"`
	Closed bool        `json:"cleanup_at_end"`
	Idle   []idle09    `json:"idle_periods,omitempty"`
}

// idle09: after read number After (modulo the number of reads) the connection is silent for Ms, so that the next
// read runs the re-request (> 5 s) or the expiry (> 60 s) path over the transfers still open.
type idle09 struct {
	After int   `json:"after_read"`
	Ms    int64 `json:"ms"`
}

func genC09(t *rapid.T) c09Case {
	c := c09Case{Closed: rapid.Bool().Draw(t, "closed")}
	if rapid.IntRange(0, 2).Draw(t, "kind") == 0 {
		f := genC05(t)
		f.Reuse = true
		if len(f.Events) > 2 && rapid.IntRange(0, 2).Draw(t, "incomplete") == 0 {
			// the connection ends in the middle of a transfer: the parts already delivered must stay intact
			f.Events = f.Events[:rapid.IntRange(2, len(f.Events)-1).Draw(t, "keep")]
			f.Cuts, f.CutAt = "per_frame", nil
		}
		c.Frag = &f
	} else {
		p := genC04(t)
		p.Reuse = true
		c.Plain = &p
	}
	for i, k := 0, rapid.SampledFrom([]int{0, 1, 1, 2}).Draw(t, "idles"); i < k; i++ {
		c.Idle = append(c.Idle, idle09{After: rapid.IntRange(0, 40).Draw(t, "idle_after"), Ms: rapid.SampledFrom([]int64{5500, 7000, 7000, 61000}).Draw(t, "idle_ms")})
	}
	n := rapid.IntRange(1, 4).Draw(t, "tail_n")
	for i := 0; i < n; i++ {
		c.Tail = append(c.Tail, genFrame(t, "tail", 1023))
	}
	return c
}

func checkC09(c c09Case, _ *kit.Collector) kit.Result {
	res := kit.Result{}
	var stream []byte
	var cuts []int
	kind := "plain"
	if c.Frag != nil {
		kind = "fragmented"
		var ends []int
		for _, e := range c.Frag.Events {
			stream = append(stream, c.Frag.frame(e).bytes()...)
			ends = append(ends, len(stream))
		}
		switch c.Frag.Cuts {
		case "per_frame":
			cuts = append(cuts, ends...)
		case "random":
			cuts = append(cuts, c.Frag.CutAt...)
			cuts = append(cuts, len(stream))
		default:
			cuts = append(cuts, len(stream))
		}
	} else {
		for _, f := range c.Plain.Frames {
			stream = append(stream, f.bytes()...)
		}
		cuts = append(cuts, c.Plain.Cuts...)
		cuts = append(cuts, len(stream))
	}
	for _, f := range c.Tail { // later traffic: one frame per read (the fast path overwrites the buffer in place)
		stream = append(stream, f.bytes()...)
		cuts = append(cuts, len(stream))
	}
	sort.Ints(cuts)
	parts := split(stream, cuts)
	fd := newFeeder(true)
	firstDelivery, rerequested := -1, false
	for j, p := range parts {
		out, err := fd.feed(p)
		if err != nil {
			res.Err = kit.Fail("read %d: extractor error %v on valid frames", j, err)
			return res
		}
		if len(out) > 0 && firstDelivery < 0 {
			firstDelivery = j
		}
		for _, o := range out {
			rerequested = rerequested || o.id == 0x8003
		}
		for _, id := range c.Idle {
			if id.After%len(parts) == j {
				fd.ex.Advance(time.Duration(id.Ms) * time.Millisecond)
			}
		}
		// every earlier delivery must be unchanged after this read
		for _, d := range fd.all {
			if d.feed < j {
				if s := d.stable(); s != "" {
					res.Err = kit.Fail("message id %#04x serial %d delivered by read %d changed after read %d: %s", d.id, d.serial, d.feed, j, s)
					return res
				}
			}
		}
	}
	pendingAtClose := len(fd.ex.Pending()) > 0
	if c.Closed {
		fd.ex.Clear()
		clear(fd.buf)
		for _, d := range fd.all {
			if s := d.stable(); s != "" {
				res.Err = kit.Fail("message id %#04x serial %d changed when the connection was cleaned up: %s", d.id, d.serial, s)
				return res
			}
		}
	}
	res.Labels = []string{kind}
	if len(fd.ex.Pending()) > 0 || pendingAtClose {
		res.Labels = append(res.Labels, "transfer_incomplete_at_close")
	}
	if c.Closed {
		res.Labels = append(res.Labels, "cleanup")
	}
	if rerequested {
		res.Labels = append(res.Labels, "re-request_sent_in_between")
	}
	res.NT = firstDelivery >= 0 && len(parts)-1-firstDelivery >= 2
	return res
}

func TestC09Extractor(t *testing.T) {
	kit.Run(t, kit.Prop[c09Case]{ID: "C09", Part: "TestC09Extractor", Gen: genC09, Check: checkC09})
}
