package ext

import (
	"bytes"
	"fmt"
	"sort"
	"testing"
	"time"

	"verif/harness/kit"
	"verif/harness/ref"

	"pgregory.net/rapid"
)

// C14: missing sub-packages are re-requested exactly (0x8003), at most once per 5 s, stale transfers expire after 60 s.

type op14 struct {
	Kind string `json:"kind"` // pkt | advance | trigger | half
	T    int    `json:"transfer,omitempty"`
	No   uint16 `json:"no,omitempty"`
	Ms   int64  `json:"ms,omitempty"`
	Ser  uint16 `json:"first_serial,omitempty"` // pkt with no == 1 after the start: the transfer is re-started with this new first-packet serial
}

type c14Case struct {
	Transfers []transfer `json:"transfers"`
	Serials   []uint16   `json:"first_packet_serials"`
	Ops       []op14     `json:"ops"`
	Reuse     bool       `json:"reader_style_reused_buffer"`
}

// model14 is the reference model with its own clock (milliseconds).
type tr14 struct {
	first             uint16
	open              bool
	created, progress int64
	slots             []bool
	everExpired       bool
}

type model14 struct {
	now int64
	tr  []tr14
}

type expect14 struct {
	rereq    map[int][]uint16 // transfer -> missing numbers ascending
	complete map[int]bool
	near     bool // some deadline within the tolerance of the decision point
}

const tol14 = 120 // ms; the extractor's clock is the real clock shifted by Advance, a case runs in a few ms

func (m *model14) evaluate(exp *expect14) {
	for k := range m.tr {
		t := &m.tr[k]
		if !t.open {
			continue
		}
		age := m.now - t.created
		if abs64(age-60000) < tol14 {
			exp.near = true
		}
		if age > 60000 {
			t.open = false
			t.everExpired = true
			continue
		}
		idle := m.now - t.progress
		if abs64(idle-5000) < tol14 {
			exp.near = true
		}
		if idle > 5000 {
			var miss []uint16
			for i, got := range t.slots {
				if !got {
					miss = append(miss, uint16(i+1))
				}
			}
			exp.rereq[k] = miss
			t.progress = m.now
		}
	}
}

func abs64(x int64) int64 {
	if x < 0 {
		return -x
	}
	return x
}

// step applies one inbound-data op to the model and says what the server must produce for that read.
func (m *model14) step(c *c14Case, o op14) expect14 {
	exp := expect14{rereq: map[int][]uint16{}, complete: map[int]bool{}}
	if o.Kind == "pkt" {
		t := &m.tr[o.T]
		n := len(c.Transfers[o.T].Bodies)
		if o.No == 1 {
			first := c.Serials[o.T]
			if o.Ser != 0 {
				first = o.Ser
			}
			*t = tr14{first: first, open: true, created: m.now, progress: m.now, slots: make([]bool, n), everExpired: t.everExpired}
		}
		if t.open && o.No >= 1 && int(o.No) <= n {
			t.slots[o.No-1] = true
			t.progress = m.now
			full := true
			for _, s := range t.slots {
				full = full && s
			}
			if full {
				t.open = false
				exp.complete[o.T] = true
			}
		}
	}
	m.evaluate(&exp)
	return exp
}

func genC14(t *rapid.T) c14Case {
	c := c14Case{Reuse: rapid.Bool().Draw(t, "reuse")}
	nT := rapid.SampledFrom([]int{1, 1, 2}).Draw(t, "transfers")
	ids := []uint16{0x0801, 0x0704}
	for k := 0; k < nT; k++ {
		tr := transfer{ID: ids[k], V2019: rapid.Bool().Draw(t, "v")}
		n := rapid.IntRange(2, 9).Draw(t, "n")
		if rapid.IntRange(0, 9).Draw(t, "nbig") == 0 {
			n = rapid.IntRange(10, 255).Draw(t, "nn")
		}
		for i := 0; i < n; i++ {
			tr.Bodies = append(tr.Bodies, kit.Hex{byte(0x41 + k), byte(i), byte(i >> 8), 0x7e})
		}
		c.Transfers = append(c.Transfers, tr)
		c.Serials = append(c.Serials, uint16(1000*(k+1)+rapid.IntRange(0, 500).Draw(t, "ser")))
	}
	m := &model14{tr: make([]tr14, nT)}
	add := func(o op14) {
		c.Ops = append(c.Ops, o)
		if o.Kind == "advance" {
			m.now += o.Ms
		} else {
			m.step(&c, o)
		}
	}
	safeAdvance := func(d int64) int64 {
		for tries := 0; tries < 8; tries++ {
			ok := true
			for _, tr := range m.tr {
				if tr.open && (abs64(m.now+d-tr.created-60000) < 200 || abs64(m.now+d-tr.progress-5000) < 200) {
					ok = false
				}
			}
			if ok {
				return d
			}
			d += 230
		}
		return d
	}
	for k := 0; k < nT; k++ {
		add(op14{Kind: "pkt", T: k, No: 1})
	}
	steps := rapid.IntRange(2, 14).Draw(t, "steps")
	for s := 0; s < steps; s++ {
		switch rapid.IntRange(0, 5).Draw(t, "op") {
		case 0, 1: // some packets of a transfer
			k := rapid.IntRange(0, nT-1).Draw(t, "k")
			n := len(c.Transfers[k].Bodies)
			cnt := rapid.IntRange(1, min(n, 6)).Draw(t, "cnt")
			for i := 0; i < cnt; i++ {
				no := uint16(rapid.IntRange(2, n).Draw(t, "no"))
				if rapid.IntRange(0, 3).Draw(t, "prefer_missing") != 0 && m.tr[k].open {
					var miss []int
					for j, got := range m.tr[k].slots {
						if !got {
							miss = append(miss, j+1)
						}
					}
					if len(miss) > 0 {
						no = uint16(rapid.SampledFrom(miss).Draw(t, "missno"))
					}
				}
				add(op14{Kind: "pkt", T: k, No: no})
			}
		case 2: // short pause then trigger: nothing may be re-requested twice
			if k := rapid.IntRange(0, nT-1).Draw(t, "rk"); m.tr[k].open && rapid.IntRange(0, 2).Draw(t, "restart") == 0 {
				// the terminal gives up the incomplete transfer and starts the same message ID again with a new first packet
				add(op14{Kind: "pkt", T: k, No: 1, Ser: uint16(20000 + 100*k + len(c.Ops))})
			}
			add(op14{Kind: "advance", Ms: safeAdvance(int64(rapid.IntRange(10, 3500).Draw(t, "short")))})
			add(op14{Kind: "trigger"})
		case 3, 4: // idle beyond 5 s, then inbound data that is not a packet
			d := rapid.SampledFrom([]int64{6000, 6100, 9000, 15000, 4000, 20000, 5250, 5500, 5900, 4750, 4500, 5999}).Draw(t, "idle")
			add(op14{Kind: "advance", Ms: safeAdvance(d)})
			if k := rapid.IntRange(0, nT-1).Draw(t, "pk"); nT == 2 && m.tr[k].open && rapid.IntRange(0, 2).Draw(t, "pkt_as_trigger") == 0 {
				// the inbound data after the silence is a packet of one of the transfers: the other one (idle just as long)
				// must be re-requested by it all the same
				var miss []int
				for j, got := range m.tr[k].slots {
					if !got {
						miss = append(miss, j+1)
					}
				}
				if len(miss) > 0 {
					add(op14{Kind: "pkt", T: k, No: uint16(rapid.SampledFrom(miss).Draw(t, "trigger_no"))})
					break
				}
			}
			add(op14{Kind: rapid.SampledFrom([]string{"trigger", "trigger", "half"}).Draw(t, "trig")})
		default: // jump towards / across the 60 s limit
			d := rapid.SampledFrom([]int64{30000, 45000, 58000, 62000, 70000, 59700, 60300, 60900}).Draw(t, "long")
			add(op14{Kind: "advance", Ms: safeAdvance(d)})
			add(op14{Kind: "trigger"})
		}
	}
	// finally resupply everything still missing of every open transfer, after a trigger
	add(op14{Kind: "trigger"})
	for k := 0; k < nT; k++ {
		if m.tr[k].open && rapid.IntRange(0, 3).Draw(t, "finish") != 0 {
			for j, got := range append([]bool(nil), m.tr[k].slots...) {
				if !got {
					add(op14{Kind: "pkt", T: k, No: uint16(j + 1)})
				}
			}
		}
	}
	return c
}

func checkC14(c c14Case, _ *kit.Collector) kit.Result {
	res := kit.Result{}
	fd := newFeeder(c.Reuse)
	m := &model14{tr: make([]tr14, len(c.Transfers))}
	serial := uint16(7)
	crossed5, crossed60, multiMissing, rounds := false, false, false, 0
	restarted := false
	start := time.Now()
	var virt int64
	pktTrigger := false
	rereqForTrigger := map[int]bool{}
	feed := func(o op14, data []byte, idx int) string {
		idleBefore := map[int]int64{}
		rereqForTrigger = map[int]bool{}
		for k := range m.tr {
			if m.tr[k].open {
				idleBefore[k] = m.now - m.tr[k].progress
			}
		}
		exp := m.step(&c, o)
		out, err := fd.feed(data)
		if err != nil {
			return fmt.Sprintf("op %d (%s): extractor error %v", idx, o.Kind, err)
		}
		if real := time.Since(start).Milliseconds(); real > tol14/2 {
			exp.near = true // the harness itself was stalled for longer than the tolerance: do not judge timing
		}
		got := map[uint16][]uint16{}
		gotComplete := map[int]bool{}
		for _, d := range out {
			if d.id == 0x8003 {
				b := d.body
				if len(b) < 3 || len(b) != 3+2*int(b[2]) {
					return fmt.Sprintf("op %d: 0x8003 body %x is malformed (serial(2) count(1) ids(2 each))", idx, b)
				}
				var list []uint16
				for i := 0; i < int(b[2]); i++ {
					list = append(list, ref.BE16(b[3+2*i:]))
				}
				orig := ref.BE16(b)
				if _, dup := got[orig]; dup {
					return fmt.Sprintf("op %d: two re-requests for first-packet serial %d in one read", idx, orig)
				}
				got[orig] = list
				f, why := ref.Validate(d.data)
				if why != "" || f.ID != 0x8003 || f.Fragmented {
					return fmt.Sprintf("op %d: re-request frame %s is not a well-formed unfragmented 0x8003 frame (%s)", idx, hx(d.data), why)
				}
			} else if d.complete {
				for k, tr := range c.Transfers {
					if tr.ID == d.id {
						gotComplete[k] = true
						var want []byte
						for _, bd := range tr.Bodies {
							want = append(want, bd...)
						}
						if !bytes.Equal(d.body, want) {
							return fmt.Sprintf("op %d: completed transfer %#04x has a wrong body", idx, d.id)
						}
					}
				}
			}
		}
		if exp.near {
			return "near"
		}
		for k := range c.Transfers {
			want, must := exp.rereq[k]
			g, has := got[m.tr[k].first]
			if o.Kind == "pkt" && o.T == k && idleBefore[k] > 5000 && !must {
				// this transfer's own packet ended its silence: whether "the next inbound data" still owes it a re-request
				// can be read both ways; a re-request is accepted if it names exactly what is missing now
				pktTrigger = true
				if has {
					var miss []uint16
					for i, gotIt := range m.tr[k].slots {
						if !gotIt {
							miss = append(miss, uint16(i+1))
						}
					}
					if !m.tr[k].open || fmt.Sprint(g) != fmt.Sprint(miss) {
						return fmt.Sprintf("op %d: re-request for transfer %d lists %v, missing now %v (open %v)", idx, k, g, miss, m.tr[k].open)
					}
					rereqForTrigger[k] = true
				}
				continue
			}
			if must != has {
				return fmt.Sprintf("op %d (%s) at model time %d ms: re-request for transfer %d (id %#04x, first-packet serial %d): got=%v want=%v (missing %v; re-requests seen for serials %v)", idx, o.Kind, m.now, k, c.Transfers[k].ID, m.tr[k].first, has, must, want, got)
			}
			if must {
				rounds++
				if len(want) >= 2 {
					multiMissing = true
				}
				if fmt.Sprint(g) != fmt.Sprint(want) {
					return fmt.Sprintf("op %d: re-request for transfer %d lists %v, want exactly the missing numbers ascending %v", idx, k, g, want)
				}
			}
			if exp.complete[k] != gotComplete[k] {
				return fmt.Sprintf("op %d (%s) at model time %d ms: transfer %d (id %#04x) complete delivered=%v, model says %v", idx, o.Kind, m.now, k, c.Transfers[k].ID, gotComplete[k], exp.complete[k])
			}
		}
		if len(got) > len(exp.rereq)+len(rereqForTrigger) {
			return fmt.Sprintf("op %d: re-request with an unknown first-packet serial: %v", idx, got)
		}
		return ""
	}
	for idx, o := range c.Ops {
		var why string
		switch o.Kind {
		case "advance":
			fd.ex.Advance(time.Duration(o.Ms) * time.Millisecond)
			m.now += o.Ms
			virt += o.Ms
			for _, t := range m.tr {
				if t.open && m.now-t.progress > 5000 {
					crossed5 = true
				}
				if t.open && m.now-t.created > 60000 {
					crossed60 = true
				}
			}
			continue
		case "pkt":
			tr := c.Transfers[o.T]
			ser := serial
			serial++
			if o.No == 1 {
				ser = c.Serials[o.T]
				if o.Ser != 0 {
					ser = o.Ser
					restarted = true
				}
			}
			f := frameSpec{ID: tr.ID, V2019: tr.V2019, Phone: phoneFor(tr.V2019), Serial: ser, Fragmented: true, Total: uint16(len(tr.Bodies)), No: o.No, Body: tr.Bodies[o.No-1]}
			why = feed(o, f.bytes(), idx)
		case "trigger":
			f := frameSpec{ID: 0x0002, Phone: phoneFor(false), Serial: serial}
			serial++
			why = feed(o, f.bytes(), idx)
		case "half":
			f := frameSpec{ID: 0x0002, Phone: phoneFor(false), Serial: serial}
			serial++
			b := f.bytes()
			why = feed(o, b[:len(b)/2], idx)
			if why == "" {
				why = feed(op14{Kind: "trigger"}, b[len(b)/2:], idx)
			}
		}
		if why == "near" {
			res.Excluded = "C14-near-deadline"
			return res
		}
		if why != "" {
			res.Err = kit.Fail("%s", why)
			return res
		}
	}
	// an expired transfer must be gone
	pend := fd.ex.Pending()
	for k, t := range m.tr {
		i := sort.Search(len(pend), func(i int) bool { return pend[i] >= c.Transfers[k].ID })
		isPending := i < len(pend) && pend[i] == c.Transfers[k].ID
		if isPending != t.open {
			res.Err = kit.Fail("at the end transfer %d (id %#04x) pending=%v, model says open=%v", k, c.Transfers[k].ID, isPending, t.open)
			return res
		}
	}
	lab := func(b bool, s string) {
		if b {
			res.Labels = append(res.Labels, s)
		}
	}
	lab(crossed5, "advance_crosses_5s")
	lab(crossed60, "advance_crosses_60s")
	lab(multiMissing, "missing>=2")
	lab(rounds >= 2, "rounds>=2")
	lab(rounds == 0, "no_rerequest")
	lab(len(c.Transfers) == 2, "two_transfers")
	lab(restarted, "transfer_restarted")
	lab(pktTrigger, "silence_ended_by_a_packet_of_another_transfer")
	lab(len(c.Transfers[0].Bodies) >= 10, "N>=10")
	res.NT = multiMissing && crossed5
	return res
}

func TestC14(t *testing.T) {
	kit.Run(t, kit.Prop[c14Case]{ID: "C14", Part: "TestC14", Gen: genC14, Check: checkC14})
}

// TestC14Enum: every non-empty subset of missing packets 2..N for N <= 8 (thorough: 10): idle just over 5 s, trigger,
// exact list; resupply; complete. The idle time walks 5.3 .. 6.0 s.
func TestC14Enum(t *testing.T) {
	kit.Enum(t, "C14", "TestC14Enum", "TestC14", func(col *kit.Collector) (any, error) {
		maxN := 8
		if kit.Thorough() {
			maxN = 10
		}
		shard, shards := kit.Shard()
		var space int64
		idx := 0
		for n := 2; n <= maxN; n++ {
			for mask := 1; mask < 1<<(n-1); mask++ { // bit i set => packet i+2 missing
				idx++
				if idx%shards != shard {
					continue
				}
				tr := transfer{ID: 0x0801}
				for i := 0; i < n; i++ {
					tr.Bodies = append(tr.Bodies, kit.Hex{byte(i + 1), 0x7d})
				}
				c := c14Case{Transfers: []transfer{tr}, Serials: []uint16{4242}}
				c.Ops = append(c.Ops, op14{Kind: "pkt", No: 1})
				for i := n; i >= 2; i-- {
					if mask>>(i-2)&1 == 0 {
						c.Ops = append(c.Ops, op14{Kind: "pkt", No: uint16(i)})
					}
				}
				c.Ops = append(c.Ops, op14{Kind: "advance", Ms: int64(5300 + 100*(idx%8))}, op14{Kind: "trigger"}, op14{Kind: "advance", Ms: 2000}, op14{Kind: "trigger"})
				for i := 2; i <= n; i++ {
					if mask>>(i-2)&1 == 1 {
						c.Ops = append(c.Ops, op14{Kind: "pkt", No: uint16(i)})
					}
				}
				res := checkC14(c, col)
				res.NT = true
				space++
				col.RecordHash(kit.HashJSON(c), res, func() any { return c })
				if res.Err != nil {
					return c, res.Err
				}
			}
		}
		col.SetExhaustive(true, space)
		return nil, nil
	})
}
