package ext

import (
	"bytes"
	"fmt"
	"sort"
	"testing"

	"verif/harness/kit"

	"pgregory.net/rapid"
)

// C04: stream framing is independent of TCP segmentation.

type c04Case struct {
	Frames []frameSpec `json:"frames"`
	Cuts   []int       `json:"cuts"`
	Reuse  bool        `json:"reader_style_reused_buffer"`
}

func genFrame(t *rapid.T, label string, maxBody int) frameSpec {
	f := frameSpec{ID: rapid.SampledFrom([]uint16{0x0002, 0x0200, 0x0100, 0x0102, 0x0704, 0x0801, 0x7e7e, 0x1234}).Draw(t, label+"_id"),
		V2019: rapid.Bool().Draw(t, label+"_v"), Serial: genU16(t, label+"_ser")}
	f.Phone = phoneFor(f.V2019)
	n := genBodyLen(t, label+"_len")
	if n > maxBody {
		n = maxBody
	}
	f.Body = genBody(t, n, label+"_body")
	if rapid.IntRange(0, 5).Draw(t, label+"_frag") == 0 {
		// fragment header without packet 1: framing sees the package fields, reassembly ignores the packet
		f.Fragmented = true
		f.Total = uint16(rapid.IntRange(2, 9).Draw(t, label+"_tot"))
		f.No = uint16(rapid.IntRange(2, int(f.Total)).Draw(t, label+"_no"))
		if len(f.Body) == 0 {
			f.Body = kit.Hex{0x55}
		}
	}
	return f
}

func genC04(t *rapid.T) c04Case {
	c := c04Case{Reuse: rapid.Bool().Draw(t, "reuse")}
	n := rapid.IntRange(1, 12).Draw(t, "n")
	manyShort := rapid.IntRange(0, 7).Draw(t, "many_short") == 0
	if manyShort {
		n = rapid.IntRange(17, 48).Draw(t, "n_many") // dozens of short frames fit into one 1023-byte read
	}
	total := 0
	var bounds []int
	for i := 0; i < n; i++ {
		f := genFrame(t, "f", 1023)
		if manyShort {
			f = genFrame(t, "f", 6)
		}
		c.Frames = append(c.Frames, f)
		total += len(f.bytes())
		bounds = append(bounds, total)
	}
	switch rapid.IntRange(0, 5).Draw(t, "cutmode") {
	case 0: // one read (as large as the buffer allows)
	case 1: // frame aligned
		c.Cuts = bounds[:len(bounds)-1]
	case 2: // byte by byte (short streams only)
		if total <= 400 {
			for i := 1; i < total; i++ {
				c.Cuts = append(c.Cuts, i)
			}
		} else {
			c.Cuts = bounds[:len(bounds)-1]
		}
	case 3: // just before / after delimiters and inside headers
		for _, b := range bounds {
			for _, d := range []int{-2, -1, 1, 2, 5, 13} {
				if rapid.IntRange(0, 2).Draw(t, "near") == 0 {
					c.Cuts = append(c.Cuts, b+d)
				}
			}
		}
	default: // random k cuts
		k := rapid.IntRange(1, 12).Draw(t, "k")
		for i := 0; i < k; i++ {
			c.Cuts = append(c.Cuts, rapid.IntRange(1, max(1, total-1)).Draw(t, "cut"))
		}
	}
	sort.Ints(c.Cuts)
	return c
}

func checkC04(c c04Case, _ *kit.Collector) kit.Result {
	res := kit.Result{}
	var stream []byte
	var ends []int
	for _, f := range c.Frames {
		stream = append(stream, f.bytes()...)
		ends = append(ends, len(stream))
	}
	parts := split(stream, c.Cuts)
	fd := newFeeder(c.Reuse)
	consumed := 0
	insideFrame, inEscape, beforeDelim, fast, long := false, false, false, false, false
	var got []delivered
	for j, p := range parts {
		start := consumed
		consumed += len(p)
		// classification
		if i := sort.SearchInts(ends, consumed); i < len(ends) && ends[i] != consumed {
			insideFrame = true
			if consumed > 0 && stream[consumed-1] == 0x7d {
				inEscape = true
			}
			if ends[i] == consumed+1 {
				beforeDelim = true
			}
		}
		if k := sort.SearchInts(ends, consumed); k < len(ends) && ends[k] == consumed && ((k == 0 && start == 0) || (k > 0 && ends[k-1] == start)) {
			fast = true
		}
		out, err := fd.feed(p)
		if err != nil {
			res.Err = kit.Fail("read %d of %d (%d bytes): extractor returned error %v for a stream of valid frames", j, len(parts), len(p), err)
			return res
		}
		for _, d := range out {
			if !d.complete {
				got = append(got, d)
			}
		}
		want := sort.Search(len(ends), func(i int) bool { return ends[i] > consumed })
		if len(got) != want {
			res.Err = kit.Fail("after read %d (stream bytes 0..%d): %d messages delivered, but %d frames have their closing delimiter inside those bytes", j, consumed, len(got), want)
			return res
		}
	}
	for i, f := range c.Frames {
		if len(f.bytes()) > 1023 {
			long = true
		}
		g := got[i]
		if g.id != f.ID || g.serial != f.Serial || !bytes.Equal(g.body, f.Body) || (f.Fragmented && (g.sum != f.Total || g.no != f.No)) || !bytes.Equal(g.data, f.bytes()) {
			res.Err = kit.Fail("message %d: got id=%#04x serial=%d no=%d/%d body=%s raw=%s; want id=%#04x serial=%d no=%d/%d body=%s", i, g.id, g.serial, g.no, g.sum,
				hx(g.body), hx(g.data), f.ID, f.Serial, f.No, f.Total, hx(f.Body))
			return res
		}
		// what the extractor handed out is still that message once the whole stream has been read
		if why := g.stable(); why != "" {
			res.Err = kit.Fail("message %d (id=%#04x serial=%d) no longer holds what was extracted after the rest of the stream was read: %s", i, f.ID, f.Serial, why)
			return res
		}
	}
	if fd.ex.HistoryLen() != 0 {
		res.Err = kit.Fail("%d bytes left in the buffer after a stream of complete frames", fd.ex.HistoryLen())
		return res
	}
	lab := func(b bool, s string) {
		if b {
			res.Labels = append(res.Labels, s)
		}
	}
	lab(insideFrame, "cut_inside_frame")
	lab(inEscape, "cut_in_escape_pair")
	lab(beforeDelim, "cut_before_delimiter")
	lab(fast, "fast_path_read")
	lab(long, "frame_longer_than_1023")
	lab(c.Reuse, "reused_buffer")
	lab(len(parts) == 1, "single_read")
	res.Labels = append(res.Labels, fmt.Sprintf("frames_%s", map[bool]string{true: "1", false: ">=2"}[len(c.Frames) == 1]))
	res.NT = len(c.Frames) >= 2 && insideFrame
	return res
}

func TestC04(t *testing.T) {
	kit.Run(t, kit.Prop[c04Case]{ID: "C04", Part: "TestC04", Gen: genC04, Check: checkC04})
}

// TestC04Enum: short streams (2..4 minimal frames, <= 80 bytes): every 1-cut and every 2-cut position
// (thorough: also every 3-cut for streams <= 40 bytes), in both feeding styles.
func TestC04Enum(t *testing.T) {
	kit.Enum(t, "C04", "TestC04Enum", "TestC04", func(col *kit.Collector) (any, error) {
		shard, shards := kit.Shard()
		bodies := [][]byte{{}, {0x7e}, {0x7d, 0x02}, {0x41, 0x42, 0x43}, {0x7d}, {0x01}}
		var space int64
		idx := 0
		for a := range bodies {
			for b := range bodies {
				for three := 0; three < 2; three++ {
					idx++
					if idx%shards != shard {
						continue
					}
					c := c04Case{}
					specs := [][]byte{bodies[a], bodies[b]}
					if three == 1 {
						specs = append(specs, bodies[(a+b)%len(bodies)])
					}
					n := 0
					for i, bd := range specs {
						f := frameSpec{ID: 0x0002, V2019: i == 1, Serial: uint16(0x7d00 + i), Body: bd}
						f.Phone = phoneFor(f.V2019)
						c.Frames = append(c.Frames, f)
						n += len(f.bytes())
					}
					try := func(cuts []int) (any, error) {
						for _, reuse := range []bool{false, true} {
							cc := c04Case{Frames: c.Frames, Cuts: cuts, Reuse: reuse}
							res := checkC04(cc, col)
							res.NT = true
							space++
							col.RecordHash(kit.HashJSON(cc), res, func() any { return cc })
							if res.Err != nil {
								return cc, res.Err
							}
						}
						return nil, nil
					}
					for i := 1; i < n; i++ {
						if bad, err := try([]int{i}); err != nil {
							return bad, err
						}
						for j := i + 1; j < n; j++ {
							if bad, err := try([]int{i, j}); err != nil {
								return bad, err
							}
							if kit.Thorough() && n <= 40 {
								for k := j + 1; k < n; k++ {
									if bad, err := try([]int{i, j, k}); err != nil {
										return bad, err
									}
								}
							}
						}
					}
				}
			}
		}
		col.SetExhaustive(true, space)
		return nil, nil
	})
}
