package ext

import (
	"bytes"
	"crypto/sha1"
	"fmt"
	"io/fs"
	"os"
	"path/filepath"
	"regexp"
	"strings"
	"testing"

	"verif/harness/kit"
	"verif/harness/ref"

	"pgregory.net/rapid"
)

// C19: with the default file handler every created file lies inside <cwd>/<phone>/.

type c19Case struct {
	Names   []kit.Hex `json:"announced_names"`
	Upload  []int     `json:"upload_mode"` // per file: 0 complete, 1 partial, 2 nothing
	Dialect int       `json:"dialect"`
	End     string    `json:"session_end"`                 // eof | garbage_frame | unknown_command | bad_checksum (the last three end the session as a failure)
	Overlap bool      `json:"overlapping_second_terminal"` // another terminal uploads a file while this session is open
	// every string the terminal controls may be hostile, not only the file names
	AlarmID    kit.Hex `json:"alarm_id,omitempty"`    // default "A1"
	TerminalID kit.Hex `json:"terminal_id,omitempty"` // default "T1"
	// Announce[i] = number of the 0x1210 message (0..2) that announces file i; several 0x1210 on one connection
	Announce     []int `json:"announced_in_message,omitempty"`
	AnnounceLate bool  `json:"each_announcement_just_before_its_uploads,omitempty"`
	// Again: after the session a second connection of the same terminal repeats it (the files then exist already)
	// the terminal's own identity: phone digits (default 13800138000) in the 2013 or 2019 header layout, and the phone
	// of the overlapping other terminal (2013 layout; default 13900139000)
	Phone      string  `json:"phone,omitempty"`
	V2019      bool    `json:"v2019,omitempty"`
	OtherPhone string  `json:"other_phone,omitempty"`
	PhoneRaw   kit.Hex `json:"phone_bytes,omitempty"` // phone field with nibbles a..f (the directory is named after its hex rendering)
	Again      bool    `json:"session_repeated_on_a_new_connection,omitempty"`
	// Blocked: announced (friendly) names that already exist as directories in the terminal's directory when the session
	// starts, so storing them fails; whatever the handler does then, nothing may be left outside (TMPDIR is in the sandbox)
	Blocked      []int   `json:"names_that_exist_as_directories,omitempty"`
	AgainAlarmID kit.Hex `json:"alarm_id_of_the_repeat,omitempty"`
}

const c19OtherPhone = "13900139000"

const c19Phone = "13800138000"

var (
	sandboxRoot string
	decoys      map[string][20]byte
)

// enterSandbox creates root/{decoys}, root/work and makes root/work the working directory (once per process).
func enterSandbox() error {
	if sandboxRoot != "" {
		return nil
	}
	root, err := os.MkdirTemp("", "verif-c19-")
	if err != nil {
		return err
	}
	if err := os.MkdirAll(filepath.Join(root, "work"), 0o755); err != nil {
		return err
	}
	if err := os.Chdir(filepath.Join(root, "work")); err != nil {
		return err
	}
	sandboxRoot = root
	// temporary files a handler creates are part of what it leaves on disk: keep them where the walk sees them
	return os.Setenv("TMPDIR", filepath.Join(root, "tmp"))
}

func resetSandbox() error {
	work := filepath.Join(sandboxRoot, "work")
	entries, _ := os.ReadDir(sandboxRoot)
	for _, e := range entries {
		if e.Name() != "work" {
			os.RemoveAll(filepath.Join(sandboxRoot, e.Name()))
		}
	}
	entries, _ = os.ReadDir(work)
	for _, e := range entries {
		os.RemoveAll(filepath.Join(work, e.Name()))
	}
	if err := os.MkdirAll(filepath.Join(sandboxRoot, "tmp"), 0o755); err != nil {
		return err
	}
	decoys = map[string][20]byte{}
	for _, rel := range []string{"x", "decoy", "etc/passwd", "work/x", "work/decoy", "work/other/decoy"} {
		p := filepath.Join(sandboxRoot, rel)
		if err := os.MkdirAll(filepath.Dir(p), 0o755); err != nil {
			return err
		}
		content := []byte("decoy:" + rel)
		if err := os.WriteFile(p, content, 0o644); err != nil {
			return err
		}
		decoys[p] = sha1.Sum(content)
	}
	return nil
}

var pathFragments = []string{"..", ".", "/", "//", "../", "../../", "./", "a", "x", "decoy", "other", "etc", "passwd", "\\", "..\\", "work", "%2e%2e", " ", "~", "..."}

func genHostileName(t *rapid.T, used map[string]bool) []byte {
	for {
		var sb strings.Builder
		switch rapid.IntRange(0, 8).Draw(t, "name_kind") {
		case 0: // friendly
			sb.WriteString(rapid.StringMatching(`[a-z0-9_]{1,12}\.(jpg|mp4|bin)`).Draw(t, "friendly"))
		case 6: // plain names that coincide with names a handler might use itself
			sb.WriteString(rapid.SampledFrom([]string{"incomplete", "tmp", "file.log", "partial", "complete", "incomplete.mp4", "new"}).Draw(t, "own_names"))
		case 7: // separators and dots spelled in full-width / ideographic characters: valid UTF-8, no ASCII '/', '\\' or '.'
			sb.WriteString(rapid.SampledFrom([]string{"\uff0e\uff0e\uff0fevil.jpg", "\uff0e\uff0e", "\uff0e\uff0e\uff0f\uff0e\uff0e\uff0fx", "\uff0fx", "a\uff0fb", "\uff0e", "\uff3c\uff0e\uff0e\uff3cx", "\u3000",
				"\uff0e\uff0e\uff0fdecoy", "x\uff0e\uff0e\uff0fy"}).Draw(t, "fullwidth"))
		case 5: // separator-free names in the standard's pattern <type>_<channel>_<alarm type>_<seq>_<alarm number>.<ext>
			// whose fields are dots: nothing in them may become a path component
			sb.WriteString(rapid.SampledFrom([]string{"00_65_6401_0_...jpg", "02_65_6401_1_..", "00_65_6401_0_..bin", "a_b_c_d_..", "..._65_6401_0_x.jpg", ".._.._.._.._...jpg",
				"00_65_.._0_f3a1.jpg", "00_.._6401_0_f3a1.jpg", "00_65_6401_.._f3a1.jpg", "00_65_6401_0_..", "._._._._.", "00_65_6401_0_..mp4", "1_2_3_4_...."}).Draw(t, "dotted_fields"))
		case 1: // known escapes
			sb.WriteString(rapid.SampledFrom([]string{"../x", "../decoy", "../../x", "../../etc/passwd", "/x", "..", ".", "../", "other/decoy", "./../x", "a/../../x",
				"..//x", "/../x", "../work/x", "../../work/work/x", "x/", "a/b/c/d",
				// names that climb out and re-enter a path that merely starts with the terminal's own phone number
				"../" + c19Phone + "-old/f.bin", "../" + c19Phone + ".bin", "../" + c19Phone + "9/x", "../" + c19Phone + "/../x", "../../work/" + c19Phone + "x",
				"../" + c19Phone + "_evil"}).Draw(t, "escape"))
		default:
			n := rapid.IntRange(1, 8).Draw(t, "frags")
			for i := 0; i < n; i++ {
				sb.WriteString(rapid.SampledFrom(pathFragments).Draw(t, "frag"))
				if rapid.Bool().Draw(t, "sep") {
					sb.WriteByte('/')
				}
			}
			if rapid.IntRange(0, 9).Draw(t, "long") == 0 {
				sb.WriteString(strings.Repeat("A", rapid.IntRange(100, 200).Draw(t, "pad")))
			}
		}
		b := []byte(sb.String())
		if len(b) == 0 || len(b) > 255 || b[0] == 0 || b[len(b)-1] == 0 || used[string(b)] {
			continue
		}
		used[string(b)] = true
		return b
	}
}

func genC19(t *rapid.T) c19Case {
	c := c19Case{Dialect: rapid.IntRange(1, 5).Draw(t, "dialect"), Overlap: rapid.IntRange(0, 3).Draw(t, "overlap") == 0, End: rapid.SampledFrom([]string{"eof", "eof", "garbage_frame", "unknown_command", "bad_checksum"}).Draw(t, "end")}
	n := rapid.IntRange(1, 4).Draw(t, "n")
	used := map[string]bool{}
	for i := 0; i < n; i++ {
		c.Names = append(c.Names, genHostileName(t, used))
		c.Upload = append(c.Upload, rapid.SampledFrom([]int{0, 0, 1, 2}).Draw(t, "mode"))
	}
	hostileID := func(label string, max int) kit.Hex {
		for {
			b := genHostileName(t, map[string]bool{})
			if len(b) <= max {
				return b
			}
		}
	}
	if rapid.IntRange(0, 2).Draw(t, "hostile_alarm") == 0 {
		c.AlarmID = hostileID("alarm", 32)
	}
	if rapid.IntRange(0, 3).Draw(t, "hostile_tid") == 0 {
		c.TerminalID = hostileID("tid", ref.DialectIDLen[c.Dialect])
	}
	if rapid.IntRange(0, 2).Draw(t, "split") == 0 {
		for range c.Names {
			c.Announce = append(c.Announce, rapid.IntRange(0, 2).Draw(t, "ann"))
		}
		c.AnnounceLate = rapid.Bool().Draw(t, "late")
	}
	switch rapid.IntRange(0, 7).Draw(t, "phone_kind") {
	case 0: // 20 decimal digits that do not fit into 64 bits
		c.V2019, c.Phone = true, rapid.StringMatching("[2-9][0-9]{19}").Draw(t, "phone20")
	case 1: // a 2019 phone whose bytes are a 2013 phone followed by zero bytes; the other terminal is that 2013 phone
		c.V2019, c.OtherPhone = true, rapid.StringMatching("1[3-9][0-9]{10}").Draw(t, "phone12")
		c.Phone = c.OtherPhone + "00000000"
		c.Overlap = true
	case 2: // the other terminal's 2013 phone is the tail of this terminal's 2019 phone
		c.V2019, c.Phone = true, rapid.StringMatching("[1-9][0-9]{19}").Draw(t, "phone20b")
		c.OtherPhone = c.Phone[8:]
		if c.OtherPhone[0] == '0' {
			c.OtherPhone = "1" + c.OtherPhone[1:]
			c.Phone = c.Phone[:8] + c.OtherPhone
		}
		c.Overlap = true
	case 3:
		c.V2019 = true
	case 5: // the all-zero phone number (directory 000000000000 resp. twenty zeros), usually with a hostile terminal ID
		c.V2019 = rapid.Bool().Draw(t, "zero_v2019")
		c.PhoneRaw = make([]byte, map[bool]int{false: 6, true: 10}[c.V2019])
		if rapid.IntRange(0, 3).Draw(t, "zero_tid") != 0 {
			c.TerminalID = kit.Hex(rapid.SampledFrom([]string{"..", "../out", ".", "/x", "../x", "ABC1234", "..//", "../../x"}).Draw(t, "tid_escape"))
		}
	case 4: // a phone field that is not decimal BCD; the other terminal's decimal phone equals its digits-only part
		n := 6
		if c.V2019 = rapid.Bool().Draw(t, "raw_v2019"); c.V2019 {
			n = 10
		}
		raw := make([]byte, n)
		for i := range raw {
			raw[i] = rapid.SampledFrom([]byte{0xff, 0xa1, 0x38, 0x00, 0x13, 0x9f, 0xf0, 0x0a, 0x02}).Draw(t, "raw_phone")
		}
		if rapid.IntRange(0, 3).Draw(t, "all_ff") == 0 {
			for i := range raw {
				raw[i] = 0xff
			}
		}
		c.PhoneRaw = raw
		digits := ""
		for _, ch := range ref.PhoneDigits(raw) {
			if ch >= '0' && ch <= '9' {
				digits += string(ch)
			}
		}
		if d := ref.StripZeros(digits); len(d) >= 1 && len(d) <= 12 && d != ref.StripZeros(ref.PhoneDigits(raw)) {
			c.OtherPhone = d
			c.Overlap = true
		}
	}
	for i, n := range c.Names {
		if friendlyName.Match(n) && rapid.IntRange(0, 3).Draw(t, "blocked") == 0 {
			c.Blocked = append(c.Blocked, i)
		}
	}
	if rapid.IntRange(0, 3).Draw(t, "again") == 0 {
		c.Again = true
		c.AgainAlarmID = hostileID("alarm2", 32)
	}
	return c
}

var friendlyName = regexp.MustCompile(`^[a-z0-9_]{1,12}\.(jpg|mp4|bin)$`)

// c19Dir is the name of the directory the terminal of c is entitled to.
func c19Dir(c c19Case) string {
	phone := c19Phone
	if c.Phone != "" {
		phone = ref.StripZeros(c.Phone)
	}
	if len(c.PhoneRaw) > 0 {
		if phone = ref.StripZeros(ref.PhoneDigits(c.PhoneRaw)); phone == "" {
			phone = ref.PhoneDigits(c.PhoneRaw) // an all-zero number keeps its zeros
		}
	}
	return phone
}

func checkC19(c c19Case, _ *kit.Collector) kit.Result {
	res := kit.Result{}
	if err := enterSandbox(); err != nil {
		res.Err = fmt.Errorf("HARNESS-ERROR sandbox: %v", err)
		return res
	}
	if err := resetSandbox(); err != nil {
		res.Err = fmt.Errorf("HARNESS-ERROR sandbox: %v", err)
		return res
	}
	for _, i := range c.Blocked {
		if i < len(c.Names) && friendlyName.Match(c.Names[i]) {
			if err := os.MkdirAll(filepath.Join(sandboxRoot, "work", c19Dir(c), string(c.Names[i])), 0o755); err != nil {
				res.Err = fmt.Errorf("HARNESS-ERROR sandbox: %v", err)
				return res
			}
		}
	}
	alarm, tid := c.AlarmID, c.TerminalID
	if alarm == nil {
		alarm = kit.Hex("A1")
	}
	if tid == nil {
		tid = kit.Hex("T1")
	}
	s := upScript{Dialect: c.Dialect, TerminalID: tid, AlarmID: alarm, Phone: c.Phone, V2019: c.V2019, PhoneRaw: c.PhoneRaw}
	otherPhone := c.OtherPhone
	if otherPhone == "" {
		otherPhone = c19OtherPhone
	}
	for i, n := range c.Names {
		s.Files = append(s.Files, upFile{Name: n, Size: 10 + i, Seed: byte(i + 1)})
	}
	upload := func(i int) {
		n := c.Names[i]
		if c.Upload[i] == 2 {
			return
		}
		s.Items = append(s.Items, upItem{Kind: "1211", File: i})
		// the chunk header carries at most 50 name bytes: longer names cannot be uploaded, only announced
		if len(n) <= 50 {
			ln := 10 + i
			if c.Upload[i] == 1 {
				ln = 4
			}
			s.Items = append(s.Items, upItem{Kind: "chunk", File: i, Off: 0, Len: ln})
		}
		s.Items = append(s.Items, upItem{Kind: "1212", File: i})
	}
	if c.Announce == nil {
		s.Items = append(s.Items, upItem{Kind: "1210"})
		for i := range c.Names {
			upload(i)
		}
	} else {
		groups := [3][]int{}
		for i, g := range c.Announce {
			groups[g] = append(groups[g], i)
		}
		if !c.AnnounceLate {
			for _, g := range groups {
				if len(g) > 0 {
					s.Items = append(s.Items, upItem{Kind: "1210", Only: g})
				}
			}
		}
		for _, g := range groups {
			if len(g) > 0 && c.AnnounceLate {
				s.Items = append(s.Items, upItem{Kind: "1210", Only: g})
			}
			for _, i := range g {
				upload(i)
			}
		}
	}
	build := func(s upScript, end string) (stream []byte, cuts []int, nControl int) {
		for i, it := range s.Items {
			stream = append(stream, s.encode(it, uint16(100+i))...)
			cuts = append(cuts, len(stream))
			if it.Kind != "chunk" {
				nControl++
			}
		}
		// how the session ends: a clean EOF, or something that makes the connection loop quit with a failure
		switch end {
		case "garbage_frame":
			stream = append(stream, 0x7e, 0x01, 0x02, 0x7e)
			cuts = append(cuts, len(stream))
		case "unknown_command":
			stream = append(stream, ref.Spec{ID: 0x0002, Version2019: s.V2019, VersionByte: 1, PhoneBCD: s.phoneBCD(), Serial: 999}.Build()...)
			cuts = append(cuts, len(stream))
		case "bad_checksum":
			f := ref.Spec{ID: 0x1211, Version2019: s.V2019, VersionByte: 1, PhoneBCD: s.phoneBCD(), Serial: 998, Body: ref.Body1211([]byte("zz"), 0, 1)}.Build()
			f[len(f)-2] ^= 0x01
			stream = append(stream, f...)
			cuts = append(cuts, len(stream))
		}
		return
	}
	stream, cuts, nControl := build(s, c.End)
	if c.Overlap {
		// after this terminal's announcement another terminal (other phone) connects, uploads one file and leaves
		other := upScript{Dialect: c.Dialect, Phone: otherPhone, TerminalID: kit.Hex("T2"), AlarmID: kit.Hex("A2"),
			Files: []upFile{{Name: kit.Hex("other_b0.bin"), Size: 9, Seed: 77}},
			Items: []upItem{{Kind: "1210"}, {Kind: "1211"}, {Kind: "chunk", Off: 0, Len: 9}, {Kind: "1212"}}}
		streamHook = func(i int) {
			if i != 1 {
				return
			}
			streamHook = nil
			var st []byte
			var ct []int
			for k, it := range other.Items {
				st = append(st, other.encode(it, uint16(500+k))...)
				ct = append(ct, len(st))
			}
			runStream(c.Dialect, st, ct, 0, 3, true)
		}
		defer func() { streamHook = nil }()
	}
	r := runStream(c.Dialect, stream, cuts, 0, nControl, true)
	if c.Again && r.panicked == "" {
		s2 := s
		s2.AlarmID = c.AgainAlarmID
		st2, ct2, n2 := build(s2, "eof")
		r = runStream(c.Dialect, st2, ct2, 0, n2, true)
	}
	escaping := false
	for _, n := range c.Names {
		if bytes.Contains(n, []byte("/")) || bytes.Contains(n, []byte("..")) {
			escaping = true
		}
	}
	res.Labels = []string{fmt.Sprintf("dialect%d", c.Dialect), "end_" + c.End}
	if c.Overlap {
		res.Labels = append(res.Labels, "overlapping_sessions")
	}
	if escaping {
		res.Labels = append(res.Labels, "name_with_separator_or_dotdot")
	}
	if c.AlarmID != nil || c.TerminalID != nil || c.Again {
		res.Labels = append(res.Labels, "hostile_alarm_or_terminal_id")
	}
	if c.Announce != nil {
		res.Labels = append(res.Labels, "several_announcements")
	}
	if len(c.Blocked) > 0 {
		res.Labels = append(res.Labels, "announced_name_exists_as_directory")
	}
	if c.Again {
		res.Labels = append(res.Labels, "session_repeated")
	}
	res.NT = escaping
	if r.panicked != "" {
		res.Err = kit.Fail("default file handler panicked / hung: %s", r.panicked)
		return res
	}
	// walk the sandbox: everything new or modified must lie under work/<phone>/ (file.log excepted)
	phone := c19Phone
	if c.Phone != "" {
		phone = ref.StripZeros(c.Phone)
	}
	if len(c.PhoneRaw) > 0 {
		if phone = ref.StripZeros(ref.PhoneDigits(c.PhoneRaw)); phone == "" {
			phone = ref.PhoneDigits(c.PhoneRaw) // an all-zero number keeps its zeros
		}
		res.Labels = append(res.Labels, "phone_with_hex_nibbles")
	}
	if c.Phone != "" || c.V2019 || len(c.PhoneRaw) > 0 {
		res.Labels = append(res.Labels, "phone_other_than_the_default")
	}
	allowedDir := filepath.Join(sandboxRoot, "work", phone)
	var bad []string
	created := 0
	_ = filepath.WalkDir(sandboxRoot, func(p string, d fs.DirEntry, err error) error {
		if err != nil || p == sandboxRoot {
			return nil
		}
		if want, isDecoy := decoys[p]; isDecoy {
			b, _ := os.ReadFile(p)
			if sha1.Sum(b) != want {
				bad = append(bad, "decoy modified: "+p)
			}
			return nil
		}
		if d.IsDir() {
			// directories that existed before: work, etc, work/other; new directories are judged like files
			for dec := range decoys {
				if strings.HasPrefix(dec, p+string(filepath.Separator)) {
					return nil
				}
			}
			if p == filepath.Join(sandboxRoot, "work") || p == allowedDir || p == filepath.Join(sandboxRoot, "tmp") {
				return nil
			}
		}
		if p == filepath.Join(sandboxRoot, "work", "file.log") {
			return nil
		}
		if strings.HasPrefix(p, allowedDir+string(filepath.Separator)) {
			created++
			if filepath.Base(p) == "other_b0.bin" {
				bad = append(bad, "the other terminal's file was created in this terminal's directory: "+p)
			}
			return nil
		}
		if c.Overlap {
			otherDir := filepath.Join(sandboxRoot, "work", ref.StripZeros(otherPhone))
			if p == otherDir {
				return nil
			}
			if p == filepath.Join(otherDir, "other_b0.bin") {
				return nil
			}
		}
		bad = append(bad, "created outside "+allowedDir+": "+p)
		return nil
	})
	if len(bad) > 0 {
		res.Err = kit.Fail("announced names %q: %v", namesOf(c.Names), bad)
		return res
	}
	if created > 0 {
		res.Labels = append(res.Labels, "files_stored")
	}
	return res
}

func namesOf(n []kit.Hex) []string {
	var out []string
	for _, x := range n {
		out = append(out, string(x))
	}
	return out
}

func cleanupSandbox() {
	_ = os.Chdir("/")
	os.RemoveAll(sandboxRoot)
	sandboxRoot = ""
}

func TestC19(t *testing.T) {
	defer func() {
		if sandboxRoot != "" {
			cleanupSandbox()
		}
	}()
	kit.Run(t, kit.Prop[c19Case]{ID: "C19", Part: "TestC19", Gen: genC19, Check: checkC19})
}
