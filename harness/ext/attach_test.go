package ext

import (
	"bytes"
	"fmt"
	"net"
	"runtime/debug"
	"slices"
	"sync"
	"time"

	"verif/harness/kit"
	"verif/harness/ref"

	"github.com/cuteLittleDevil/go-jt808/attachment"
	"github.com/cuteLittleDevil/go-jt808/shared/consts"
)

// ---------- upload scripts ----------

type upFile struct {
	Name kit.Hex `json:"name"`
	Size int     `json:"size"`
	Seed byte    `json:"content_seed"`
}

func (f upFile) content() []byte {
	b := make([]byte, f.Size)
	x := uint32(f.Seed)*2654435761 + 12345
	for i := range b {
		x = x*1664525 + 1013904223
		b[i] = byte(x >> 24)
	}
	// make the marker and delimiter bytes appear inside file data too
	if f.Size >= 16 {
		copy(b[f.Size/2:], []byte{0x30, 0x31, 0x63, 0x64, 0x7e, 0x7d})
	}
	return b
}

type upItem struct {
	Kind string `json:"kind"` // 1210 | 1211 | chunk | 1212
	File int    `json:"file,omitempty"`
	Off  int    `json:"off,omitempty"`
	Len  int    `json:"len,omitempty"`
	Only []int  `json:"only_files,omitempty"` // 1210: announce just these files (nil: all of them)
}

type upScript struct {
	Dialect    int      `json:"dialect"`
	V2019      bool     `json:"v2019"`
	TerminalID kit.Hex  `json:"terminal_id"`
	AlarmID    kit.Hex  `json:"alarm_id"`
	Files      []upFile `json:"files"`
	Items      []upItem `json:"items"`
	Cuts       []int    `json:"write_cuts"` // cut positions in the concatenated byte stream (nil: one write per item)
	CutMode    string   `json:"cut_mode"`
	Phone      string   `json:"phone,omitempty"`       // decimal phone of the terminal (default 13800138000)
	PhoneRaw   kit.Hex  `json:"phone_bytes,omitempty"` // the phone field as raw bytes (6 or 10; nibbles a..f allowed); overrides Phone
}

func (s upScript) phoneBCD() []byte {
	if len(s.PhoneRaw) > 0 {
		return s.PhoneRaw
	}
	if s.Phone == "" {
		return phoneFor(s.V2019)
	}
	if s.V2019 {
		return ref.PhoneBCDFromDigits(s.Phone, 10)
	}
	return ref.PhoneBCDFromDigits(s.Phone, 6)
}

// streamHook, when set, is called before write number i of runStream (used to overlap a second session).
var streamHook func(i int)

func (s upScript) encode(it upItem, serial uint16) []byte {
	hdr := func(id uint16, body []byte) []byte {
		return ref.Spec{ID: id, Version2019: s.V2019, VersionByte: 1, PhoneBCD: s.phoneBCD(), Serial: serial, Body: body}.Build()
	}
	switch it.Kind {
	case "1210":
		var files []ref.AttachFile
		for i, f := range s.Files {
			if it.Only == nil || slices.Contains(it.Only, i) {
				files = append(files, ref.AttachFile{Name: f.Name, Size: uint32(f.Size)})
			}
		}
		sign := ref.AlarmSign(s.Dialect, s.TerminalID, [6]byte{0x24, 0x10, 0x01, 0x12, 0x30, 0x45}, 1, byte(len(files)))
		return hdr(0x1210, ref.Body1210(s.Dialect, s.TerminalID, s.AlarmID, sign, 0, files))
	case "1211":
		f := s.Files[it.File]
		return hdr(0x1211, ref.Body1211(f.Name, 0, uint32(f.Size)))
	case "1212":
		f := s.Files[it.File]
		return hdr(0x1212, ref.Body1211(f.Name, 0, uint32(f.Size)))
	case "chunk":
		f := s.Files[it.File]
		return ref.Chunk(s.Dialect, f.Name, uint32(it.Off), f.content()[it.Off:it.Off+it.Len])
	}
	panic("HARNESS-ERROR unknown item kind " + it.Kind)
}

// ---------- observation ----------

type upEvent struct {
	Stage    attachment.ProgressStage
	Item     int // index of the script item whose bytes had been fully written when the event was observed (upper bound)
	Name     string
	Cur, Tot uint32
	Body     []byte // StreamBody snapshot of the current package when the stage is StreamDataComplete
	Err      string
	Final    map[string]upFinal // set on the quit event
}

type upFinal struct {
	Cur, Tot uint32
	Body     []byte
}

type recorder struct {
	mu     sync.Mutex
	events []upEvent
	item   *int
}

func (r *recorder) OnEvent(p *attachment.PackageProgress) {
	r.mu.Lock()
	defer r.mu.Unlock()
	e := upEvent{Stage: p.ProgressStage, Item: *r.item}
	if p.ExtensionFields.Err != nil {
		e.Err = p.ExtensionFields.Err.Error()
	}
	if cp := p.ExtensionFields.CurrentPackage; cp != nil && (p.ProgressStage == attachment.ProgressStageStreamData || p.ProgressStage == attachment.ProgressStageStreamDataComplete) {
		e.Name, e.Cur, e.Tot = cp.FileName, cp.CurrentSize, cp.FileSize
		if p.ProgressStage == attachment.ProgressStageStreamDataComplete {
			e.Body = append([]byte(nil), cp.StreamBody...)
		}
	}
	if p.ProgressStage == attachment.ProgressStageSuccessQuit || p.ProgressStage == attachment.ProgressStageFailQuit {
		e.Final = map[string]upFinal{}
		for name, pk := range p.Record {
			e.Final[name] = upFinal{Cur: pk.CurrentSize, Tot: pk.FileSize, Body: append([]byte(nil), pk.StreamBody...)}
		}
	}
	r.events = append(r.events, e)
}

type upResult struct {
	events   []upEvent
	replies  [][]byte // frames read from the server, in order
	junk     []byte   // bytes from the server that do not form frames
	panicked string
	aborted  bool // the server ended the connection before the script was completely written
	writeErr string
}

// runUpload plays the script against attachment's real connection loop over net.Pipe: every Write of the
// harness is exactly one Read of the server.
func runUpload(s upScript) upResult {
	var stream []byte
	var itemEnd []int
	for i, it := range s.Items {
		stream = append(stream, s.encode(it, uint16(100+i))...)
		itemEnd = append(itemEnd, len(stream))
	}
	var cuts []int
	if s.CutMode == "per_item" || (s.Cuts == nil && s.CutMode == "") {
		cuts = append(cuts, itemEnd...)
	} else {
		cuts = append(cuts, s.Cuts...)
	}
	cuts = append(cuts, len(stream))
	nControl := 0
	for _, it := range s.Items {
		if it.Kind != "chunk" {
			nControl++
		}
	}
	return runStream(s.Dialect, stream, cuts, len(s.Items), nControl, false)
}

// sharedServer: one option set (one running attachment server) serving several connections one after the other.
type sharedServer struct {
	serve func(net.Conn)
	rec   *recorder
}

var sharedSrv *sharedServer

func newSharedServer(dialect int) *sharedServer {
	s := &sharedServer{}
	s.serve = attachment.VerifServer(attachment.WithActiveSafetyType(consts.ActiveSafetyType(dialect)),
		attachment.WithFileEventerFunc(func() attachment.FileEventer { return s.rec }))
	return s
}

// runStream writes stream (cut at cuts) to the attachment connection loop; it waits (bounded) until wantEvents
// events and wantReplies reply frames were observed before hanging up. With defaultEventer the server's own
// file handler is used (it writes below the current directory).
func runStream(dialect int, stream []byte, cuts []int, wantEvents, wantReplies int, defaultEventer bool) upResult {
	var res upResult
	client, server := net.Pipe()
	cur := 0
	rec := &recorder{item: &cur}
	done := make(chan struct{})
	go func() {
		defer close(done)
		defer server.Close()
		defer func() {
			if r := recover(); r != nil {
				res.panicked = fmt.Sprintf("%v\n%s", r, truncateStack(debug.Stack()))
			}
		}()
		opts := []attachment.Option{attachment.WithActiveSafetyType(consts.ActiveSafetyType(dialect))}
		if !defaultEventer {
			opts = append(opts, attachment.WithFileEventerFunc(func() attachment.FileEventer { return rec }))
		}
		if sharedSrv != nil {
			sharedSrv.rec = rec
			sharedSrv.serve(server)
			return
		}
		attachment.VerifServeConn(server, opts...)
	}()
	var rbuf bytes.Buffer
	var rmu sync.Mutex
	rdone := make(chan struct{})
	go func() {
		defer close(rdone)
		buf := make([]byte, 64*1024)
		for {
			n, err := client.Read(buf)
			rmu.Lock()
			rbuf.Write(buf[:n])
			rmu.Unlock()
			if err != nil {
				return
			}
		}
	}()
	prev := 0
	_ = client.SetWriteDeadline(time.Now().Add(20 * time.Second))
	writeNo := 0
	for _, c := range cuts {
		if c <= prev || c > len(stream) {
			continue
		}
		if streamHook != nil {
			streamHook(writeNo)
		}
		writeNo++
		for prev < c {
			n := min(c-prev, 90*1024) // the server reads into a 100 KiB buffer
			// items completely written once this write is consumed
			if _, err := client.Write(stream[prev : prev+n]); err != nil {
				res.aborted = true
				res.writeErr = err.Error()
				prev = len(stream)
				break
			}
			prev += n
		}
	}
	// like a real terminal, wait for the server to have answered before hanging up (bounded)
	deadline := time.Now().Add(10 * time.Second)
wait:
	for time.Now().Before(deadline) {
		select {
		case <-done:
			break wait
		default:
		}
		rec.mu.Lock()
		ne := len(rec.events)
		rec.mu.Unlock()
		rmu.Lock()
		nr := bytes.Count(rbuf.Bytes(), []byte{0x7e}) / 2
		rmu.Unlock()
		if (defaultEventer || ne >= wantEvents) && nr >= wantReplies {
			break
		}
		time.Sleep(50 * time.Microsecond)
	}
	client.Close()
	select {
	case <-done:
	case <-time.After(20 * time.Second):
		res.panicked = "server loop did not end within 20 s after the client closed"
	}
	<-rdone
	rec.mu.Lock()
	res.events = rec.events
	rec.mu.Unlock()
	res.replies, res.junk = ref.SplitFrames(rbuf.Bytes())
	return res
}

func truncateStack(b []byte) string {
	if len(b) > 2500 {
		return string(b[:2500])
	}
	return string(b)
}

// coverage tracks which bytes of a file have arrived.
type coverage struct {
	got []bool
	n   int
}

func newCoverage(size int) *coverage { return &coverage{got: make([]bool, size)} }
func (c *coverage) add(off, l int) {
	for i := off; i < off+l && i < len(c.got); i++ {
		if !c.got[i] {
			c.got[i] = true
			c.n++
		}
	}
}
func (c *coverage) full() bool { return c.n == len(c.got) }
func (c *coverage) missing() []ref.Range {
	var out []ref.Range
	for i := 0; i < len(c.got); {
		if c.got[i] {
			i++
			continue
		}
		j := i
		for j < len(c.got) && !c.got[j] {
			j++
		}
		out = append(out, ref.Range{Off: uint32(i), Len: uint32(j - i)})
		i = j
	}
	return out
}
