package ext

import (
	"bytes"
	"fmt"
	"sort"
	"testing"

	"verif/harness/kit"
	"verif/harness/ref"

	"github.com/cuteLittleDevil/go-jt808/attachment"
	"github.com/cuteLittleDevil/go-jt808/protocol/jt808"
	"github.com/cuteLittleDevil/go-jt808/protocol/model"
	"pgregory.net/rapid"
)

// C15: attachment upload - files are reassembled byte-exactly; one prescribed reply per control frame.
// C16 (driven part): the 0x9212 reply lists exactly the missing ranges.

func genName(t *rapid.T, label string, maxLen int, used map[string]bool) []byte {
	for {
		n := rapid.IntRange(1, maxLen).Draw(t, label+"_n")
		if maxLen > 50 && rapid.Bool().Draw(t, label+"_longest") { // one-byte length field: the last values it can hold
			n = rapid.IntRange(maxLen-16, maxLen).Draw(t, label+"_nl")
		}
		b := make([]byte, n)
		switch rapid.IntRange(0, 3).Draw(t, label+"_style") {
		case 0: // friendly
			const cs = "abcdefghijklmnopqrstuvwxyz0123456789_-."
			for i := range b {
				b[i] = cs[rapid.IntRange(0, len(cs)-1).Draw(t, label+"_c")]
			}
		case 1: // contains the chunk marker
			for i := range b {
				b[i] = byte(rapid.IntRange(0x21, 0x7a).Draw(t, label+"_c"))
			}
			if n >= 4 {
				copy(b[rapid.IntRange(0, n-4).Draw(t, label+"_mp"):], "01cd")
			}
		default: // arbitrary bytes without NUL at the edges
			copy(b, rapid.SliceOfN(rapid.Byte(), n, n).Draw(t, label+"_raw"))
			if b[0] == 0 {
				b[0] = 1
			}
			if b[n-1] == 0 {
				b[n-1] = 1
			}
		}
		if !used[string(b)] {
			used[string(b)] = true
			return b
		}
	}
}

func genIDBytes(t *rapid.T, label string, maxLen int) []byte {
	n := rapid.IntRange(1, maxLen).Draw(t, label+"_n")
	b := make([]byte, n)
	switch rapid.IntRange(0, 2).Draw(t, label+"_style") {
	case 0:
		for i := range b {
			b[i] = byte(rapid.IntRange(0x30, 0x7a).Draw(t, label+"_c"))
		}
	case 1:
		for i := range b {
			b[i] = byte(rapid.IntRange(0x30, 0x7a).Draw(t, label+"_c"))
		}
		if n >= 4 {
			copy(b, "01cd")
		}
	default:
		copy(b, rapid.SliceOfN(rapid.SampledFrom([]byte{0x7e, 0x7d, 0x30, 0x31, 0x63, 0x64, 0x41, 0xff, 0x01}), n, n).Draw(t, label+"_raw"))
	}
	if b[n-1] == 0 {
		b[n-1] = 1
	}
	return b
}

type chunkRef struct{ file, off, ln int }

func genUpload(t *rapid.T, withGaps bool) upScript {
	s := upScript{Dialect: rapid.IntRange(1, 5).Draw(t, "dialect"), V2019: rapid.Bool().Draw(t, "v2019")}
	s.TerminalID = genIDBytes(t, "tid", ref.DialectIDLen[s.Dialect])
	s.AlarmID = genIDBytes(t, "aid", 32)
	nf := rapid.IntRange(1, 4).Draw(t, "files")
	manyFiles := rapid.IntRange(0, 9).Draw(t, "many_files") == 0
	if manyFiles {
		// an announcement near the 1023-byte body limit whose names are delimiter and escape bytes: on the wire the
		// 0x1210 frame is almost twice as long as its payload
		nf = rapid.IntRange(12, 15).Draw(t, "files_many")
	}
	used := map[string]bool{}
	var perFile [][]chunkRef
	for i := 0; i < nf; i++ {
		if manyFiles {
			n := rapid.IntRange(40, 50).Draw(t, "mf_len")
			name := make([]byte, n)
			for k := range name {
				name[k] = rapid.SampledFrom([]byte{0x7e, 0x7d, 0x7e, 0x7d, 0x41}).Draw(t, "mf_c")
			}
			name[0], name[n-1] = byte(0x41+i), 0x7e
			f := upFile{Name: name, Seed: byte(i), Size: rapid.IntRange(1, 3).Draw(t, "mf_size")}
			s.Files = append(s.Files, f)
			perFile = append(perFile, []chunkRef{{i, 0, f.Size}})
			continue
		}
		maxName := 50
		if s.Dialect == 2 && i == 0 && rapid.IntRange(0, 2).Draw(t, "long_name") == 0 {
			maxName = 255 // the HLJ chunk header carries a length-prefixed name (the others a fixed 50-byte field)
		}
		f := upFile{Name: genName(t, "name", maxName, used), Seed: rapid.Byte().Draw(t, "seed")}
		cs := rapid.SampledFrom([]int{1, 3, 7, 16, 64, 500, 1024, 4096, 65536, 100000}).Draw(t, "chunk")
		switch rapid.IntRange(0, 4).Draw(t, "sizek") {
		case 0:
			f.Size = rapid.IntRange(1, 3).Draw(t, "tiny")
		case 1:
			f.Size = cs * rapid.IntRange(1, 3).Draw(t, "mult")
		case 2: // many chunks: several separate gaps become likely
			f.Size = cs*rapid.IntRange(4, 9).Draw(t, "mult_many") - rapid.IntRange(0, cs-1).Draw(t, "short_tail")
		default:
			f.Size = rapid.IntRange(1, 3*cs).Draw(t, "size")
		}
		if f.Size > 260000 {
			f.Size = 260000
		}
		if cs < 8 && f.Size > 60 {
			f.Size = 60
		}
		s.Files = append(s.Files, f)
		var chunks []chunkRef
		for off := 0; off < f.Size; off += cs {
			chunks = append(chunks, chunkRef{i, off, min(cs, f.Size-off)})
		}
		perFile = append(perFile, chunks)
	}
	s.Items = append(s.Items, upItem{Kind: "1210"})
	emit := func(c chunkRef) {
		s.Items = append(s.Items, upItem{Kind: "chunk", File: c.file, Off: c.off, Len: c.ln})
	}
	var uploadFile func(fi int) // one file: 0x1211, chunks (some held back), 0x1212, retransmission rounds
	interleave := nf > 1 && rapid.IntRange(0, 3).Draw(t, "interleave") == 0
	order := rapid.Permutation(seq(nf)).Draw(t, "file_order")
	if interleave {
		// all 0x1211 first, then chunks of all files shuffled, then the 0x1212s
		for _, fi := range order {
			s.Items = append(s.Items, upItem{Kind: "1211", File: fi})
		}
		var all []chunkRef
		for _, cs := range perFile {
			all = append(all, cs...)
		}
		if len(all) > 1 {
			all = rapid.Permutation(all).Draw(t, "chunk_order")
		}
		var heldAll []chunkRef
		for _, c := range all {
			if withGaps && rapid.IntRange(0, 3).Draw(t, "hold_i") == 0 {
				heldAll = append(heldAll, c) // lost: the 0x1212 of that file must name it, whatever file was announced last
				continue
			}
			emit(c)
			if rapid.IntRange(0, 5).Draw(t, "dup") == 0 {
				emit(c)
			}
		}
		for _, fi := range order {
			s.Items = append(s.Items, upItem{Kind: "1212", File: fi})
		}
		if len(heldAll) > 0 && rapid.IntRange(0, 3).Draw(t, "resend_i") != 0 {
			for _, c := range heldAll {
				emit(c)
			}
			for _, fi := range rapid.Permutation(order).Draw(t, "second_1212_order") {
				s.Items = append(s.Items, upItem{Kind: "1212", File: fi})
			}
		}
	} else {
		uploadFile = func(fi int) {
			s.Items = append(s.Items, upItem{Kind: "1211", File: fi})
			chunks := perFile[fi]
			if len(chunks) > 1 && rapid.IntRange(0, 2).Draw(t, "shuffle") != 0 {
				chunks = rapid.Permutation(chunks).Draw(t, "chunk_order")
			}
			var held []chunkRef
			for _, c := range chunks {
				if withGaps && rapid.IntRange(0, 2).Draw(t, "hold") == 0 {
					held = append(held, c)
					continue
				}
				emit(c)
				if rapid.IntRange(0, 5).Draw(t, "dup") == 0 {
					emit(c)
				}
			}
			s.Items = append(s.Items, upItem{Kind: "1212", File: fi})
			if len(held) > 0 {
				// resend exactly the missing ranges (maximal runs of the held chunks), then signal completion again
				sort.Slice(held, func(i, j int) bool { return held[i].off < held[j].off })
				var runs []chunkRef
				for _, h := range held {
					if n := len(runs); n > 0 && runs[n-1].off+runs[n-1].ln == h.off && runs[n-1].ln+h.ln <= 200000 { // the report names maximal ranges: a terminal may resend one as a single packet
						runs[n-1].ln += h.ln
					} else {
						runs = append(runs, h)
					}
				}
				if rapid.IntRange(0, 4).Draw(t, "resend") != 0 {
					// one or several retransmission rounds: each resends the missing ranges in any order, some of them
					// in two pieces, some are lost again and wait for the next round; every round ends with a 0x1212
					pending := runs
					// drip: every round brings only one of the missing ranges, the others are asked for again and again
					// (the report of the n-th round must still name exactly what is missing, however many rounds there were)
					drip := len(runs) >= 3 && rapid.IntRange(0, 3).Draw(t, "drip") == 0
					maxRounds := 4
					if drip {
						maxRounds = 9
					}
					for round := 0; len(pending) > 0 && round < maxRounds; round++ {
						if len(pending) > 1 {
							pending = rapid.Permutation(pending).Draw(t, "resend_order")
						}
						var later []chunkRef
						for k, r := range pending {
							if k > 0 && round < maxRounds-1 && (drip || rapid.IntRange(0, 3).Draw(t, "lost_again") == 0) {
								later = append(later, r)
								continue
							}
							if r.ln >= 2 && rapid.IntRange(0, 3).Draw(t, "in_two_pieces") == 0 {
								cut := rapid.IntRange(1, r.ln-1).Draw(t, "piece")
								a, b := chunkRef{r.file, r.off, cut}, chunkRef{r.file, r.off + cut, r.ln - cut}
								if rapid.Bool().Draw(t, "pieces_swapped") {
									a, b = b, a
								}
								emit(a)
								emit(b)
							} else {
								emit(r)
							}
						}
						s.Items = append(s.Items, upItem{Kind: "1212", File: fi})
						pending = later
					}
				}
			}
		}
		for _, fi := range order {
			uploadFile(fi)
		}
	}
	if rapid.IntRange(0, 5).Draw(t, "reannounce") == 0 {
		// the terminal announces the same files again on the same connection and uploads them a second time
		s.Items = append(s.Items, upItem{Kind: "1210"})
		for _, fi := range order {
			if uploadFile != nil && rapid.Bool().Draw(t, "second_pass_with_gaps") {
				uploadFile(fi) // the second upload has its own losses and retransmission rounds
				continue
			}
			s.Items = append(s.Items, upItem{Kind: "1211", File: fi})
			for _, c := range perFile[fi] {
				emit(c)
			}
			s.Items = append(s.Items, upItem{Kind: "1212", File: fi})
		}
	}
	// partition of the byte stream into writes
	s.CutMode = rapid.SampledFrom([]string{"per_item", "per_item", "coalesce_all", "control_plus_next", "random"}).Draw(t, "cutmode")
	var ends []int
	total := 0
	for i, it := range s.Items {
		total += len(s.encode(it, uint16(100+i)))
		ends = append(ends, total)
	}
	switch s.CutMode {
	case "coalesce_all":
		s.Cuts = []int{}
	case "control_plus_next":
		s.Cuts = []int{}
		for i, it := range s.Items {
			if it.Kind != "chunk" && i+1 < len(s.Items) {
				continue // glue the control frame to whatever follows
			}
			s.Cuts = append(s.Cuts, ends[i])
		}
	case "random":
		s.Cuts = []int{}
		k := rapid.IntRange(1, 12).Draw(t, "k")
		for i := 0; i < k; i++ {
			if rapid.Bool().Draw(t, "near_item_start") && len(ends) > 1 {
				e := ends[rapid.IntRange(0, len(ends)-2).Draw(t, "which_end")]
				s.Cuts = append(s.Cuts, e+rapid.IntRange(1, 70).Draw(t, "into_header"))
			} else {
				s.Cuts = append(s.Cuts, rapid.IntRange(1, max(1, total-1)).Draw(t, "cut"))
			}
		}
		sort.Ints(s.Cuts)
	}
	return s
}

func seq(n int) []int {
	out := make([]int, n)
	for i := range out {
		out[i] = i
	}
	return out
}

// judgeUpload is the reference model of the upload (ref.Upload in DESIGN.md): it walks the script items and the
// observed events/replies in lockstep. mode selects which property's claims are asserted ("C15" | "C16").
func judgeUpload(s upScript, r upResult, mode string) (labels []string, nt bool, err error) {
	if r.panicked != "" {
		return nil, false, fmt.Errorf("attachment connection loop panicked / hung: %s", r.panicked)
	}
	nItems := len(s.Items)
	if len(r.events) == 0 {
		return nil, false, fmt.Errorf("no events at all")
	}
	quit := r.events[len(r.events)-1]
	evs := r.events[:len(r.events)-1]
	if quit.Stage != attachment.ProgressStageSuccessQuit && quit.Stage != attachment.ProgressStageFailQuit {
		return nil, false, fmt.Errorf("last event is %v, not a quit event", quit.Stage)
	}
	if r.aborted || quit.Stage == attachment.ProgressStageFailQuit || len(evs) != nItems {
		return nil, false, fmt.Errorf("in-domain script aborted: %d of %d items produced an event, final stage %q, error %q, write error %q", len(evs), nItems, quit.Stage.String(), quit.Err, r.writeErr)
	}
	cov := make([]*coverage, len(s.Files))
	reported := make([]bool, len(s.Files))
	for i, f := range s.Files {
		cov[i] = newCoverage(f.Size)
	}
	ri := 0
	markerMeta := bytes.Contains(s.TerminalID, []byte("01cd")) || bytes.Contains(s.AlarmID, []byte("01cd"))
	dups, gapsSeen, outOfOrder, multiGap, manyRanges := false, false, false, false, false
	reannounced := false
	lastOff := map[int]int{}
	seenChunk := map[[3]int]bool{}
	nextReply := func(kind string) (*ref.Frame, error) {
		if ri >= len(r.replies) {
			return nil, fmt.Errorf("control frame %s got no reply (%d replies in total)", kind, len(r.replies))
		}
		f, why := ref.Validate(r.replies[ri])
		if why != "" {
			return nil, fmt.Errorf("reply %d %s is not a well-formed frame: %s", ri, hx(r.replies[ri]), why)
		}
		if !bytes.Equal(f.PhoneBCD, s.phoneBCD()) || f.Version2019 != s.V2019 {
			return nil, fmt.Errorf("reply %d is addressed to phone %x version2019=%v", ri, f.PhoneBCD, f.Version2019)
		}
		if int(f.Serial) != ri {
			return nil, fmt.Errorf("reply %d carries platform serial %d", ri, f.Serial)
		}
		ri++
		return f, nil
	}
	for k, it := range s.Items {
		e := evs[k]
		reqSerial := uint16(100 + k)
		switch it.Kind {
		case "1210", "1211":
			if it.Kind == "1210" && k > 0 {
				// a new announcement starts the files afresh
				reannounced = true
				for i, f := range s.Files {
					cov[i] = newCoverage(f.Size)
					reported[i] = false
				}
				lastOff = map[int]int{}
				seenChunk = map[[3]int]bool{}
			}
			wantStage := attachment.ProgressStageInit
			if it.Kind == "1211" {
				wantStage = attachment.ProgressStageStart
			}
			if e.Stage != wantStage {
				return nil, false, fmt.Errorf("item %d (0x%s) produced stage %q", k, it.Kind, e.Stage.String())
			}
			f, err := nextReply(it.Kind)
			if err != nil {
				return nil, false, err
			}
			id := map[string]uint16{"1210": 0x1210, "1211": 0x1211}[it.Kind]
			if f.ID != 0x8001 || len(f.Body) != 5 || ref.BE16(f.Body) != reqSerial || ref.BE16(f.Body[2:]) != id || f.Body[4] != 0 {
				return nil, false, fmt.Errorf("reply to item %d (0x%s, serial %d) is id=%#04x body=%x, want 0x8001 echoing serial and ID with result 0", k, it.Kind, reqSerial, f.ID, f.Body)
			}
		case "chunk":
			f := s.Files[it.File]
			key := [3]int{it.File, it.Off, it.Len}
			if seenChunk[key] {
				dups = true
			}
			seenChunk[key] = true
			if it.Off < lastOff[it.File] {
				outOfOrder = true
			}
			lastOff[it.File] = it.Off
			if e.Stage != attachment.ProgressStageStreamData && e.Stage != attachment.ProgressStageStreamDataComplete {
				return nil, false, fmt.Errorf("item %d (chunk of file %d at %d+%d) produced stage %q", k, it.File, it.Off, it.Len, e.Stage.String())
			}
			if e.Name != string(f.Name) {
				return nil, false, fmt.Errorf("item %d: chunk attributed to file %q, sent for %q", k, e.Name, f.Name)
			}
			cov[it.File].add(it.Off, it.Len)
			if mode == "C15" {
				if e.Stage == attachment.ProgressStageStreamDataComplete {
					if !cov[it.File].full() {
						return nil, false, fmt.Errorf("item %d: file %q (%d bytes) reported complete although only %d bytes have arrived (%d bytes in the reported body)", k, f.Name, f.Size, cov[it.File].n, len(e.Body))
					}
					if !bytes.Equal(e.Body, f.content()) {
						return nil, false, fmt.Errorf("item %d: file %q reported complete with %d bytes that differ from the %d original bytes", k, f.Name, len(e.Body), f.Size)
					}
					reported[it.File] = true
				} else if cov[it.File].full() && !reported[it.File] {
					return nil, false, fmt.Errorf("item %d: every byte of file %q (%d bytes) has arrived but the file is not reported complete (progress %d/%d)", k, f.Name, f.Size, e.Cur, e.Tot)
				}
			}
		case "1212":
			f := s.Files[it.File]
			miss := cov[it.File].missing()
			if len(miss) > 0 {
				gapsSeen = true
			}
			if len(miss) >= 2 {
				multiGap = true
			}
			wantStage := attachment.ProgressStageComplete
			if len(miss) > 0 {
				wantStage = attachment.ProgressStageSupplementary
			}
			if e.Stage != attachment.ProgressStageComplete && e.Stage != attachment.ProgressStageSupplementary {
				return nil, false, fmt.Errorf("item %d (0x1212) produced stage %q", k, e.Stage.String())
			}
			fr, err := nextReply("1212")
			if err != nil {
				return nil, false, err
			}
			if fr.ID != 0x9212 {
				return nil, false, fmt.Errorf("reply to 0x1212 (item %d) has id %#04x, want 0x9212", k, fr.ID)
			}
			b := fr.Body
			nl := len(f.Name)
			if len(b) < nl+4 || int(b[0]) != nl || !bytes.Equal(b[1:1+nl], f.Name) {
				return nil, false, fmt.Errorf("0x9212 for item %d does not name file %q: %x", k, f.Name, b)
			}
			result, count := b[nl+2], int(b[nl+3])
			if len(b) != nl+4+8*count {
				return nil, false, fmt.Errorf("0x9212 for item %d: count %d does not match body length %d", k, count, len(b))
			}
			if len(miss) > 0 && (result == 0 || e.Stage == attachment.ProgressStageComplete) {
				return nil, false, fmt.Errorf("file %q (%d bytes) is reported complete at item %d (0x9212 result=%d, stage %q) although %d byte ranges have not arrived: %v", f.Name, f.Size, k, result, e.Stage.String(), len(miss), miss[:min(len(miss), 4)])
			}
			if mode == "C16" || len(miss) == 0 {
				if len(miss) > 255 {
					break
				}
				var got []ref.Range
				for i := 0; i < count; i++ {
					got = append(got, ref.Range{Off: ref.BE32(b[nl+4+8*i:]), Len: ref.BE32(b[nl+8+8*i:])})
				}
				wantResult := byte(0)
				if len(miss) > 0 {
					wantResult = 1
				}
				if result != wantResult || fmt.Sprint(got) != fmt.Sprint(miss) {
					return nil, false, fmt.Errorf("0x9212 for file %q (%d bytes) after item %d: result=%d ranges=%v, want result=%d ranges=%v", f.Name, f.Size, k, result, got, wantResult, miss)
				}
				// the report is for a terminal to act on: the library's own 0x9212 parser must read it the same way
				var rp model.P0x9212
				if err := rp.Parse(&jt808.JTMessage{Header: &jt808.Header{ID: 0x9212}, Body: append([]byte(nil), b...)}); err != nil {
					return nil, false, fmt.Errorf("0x9212 for file %q with %d ranges is rejected by P0x9212.Parse: %v", f.Name, count, err)
				}
				var parsed []ref.Range
				for _, x := range rp.P0x9212RetransmitPacketList {
					parsed = append(parsed, ref.Range{Off: x.DataOffset, Len: x.DataLength})
				}
				if rp.UploadResult != wantResult || fmt.Sprint(parsed) != fmt.Sprint(miss) {
					return nil, false, fmt.Errorf("0x9212 for file %q: P0x9212.Parse reads result=%d ranges=%v, want result=%d ranges=%v", f.Name, rp.UploadResult, parsed, wantResult, miss)
				}
				if count >= 32 {
					manyRanges = true
				}
				if mode == "C16" && e.Stage != wantStage {
					return nil, false, fmt.Errorf("item %d (0x1212): stage %q but %d ranges are missing", k, e.Stage.String(), len(miss))
				}
			}
		}
	}
	if ri != len(r.replies) || len(r.junk) != 0 {
		return nil, false, fmt.Errorf("%d replies for %d control frames (%d stray bytes)", len(r.replies), ri, len(r.junk))
	}
	if mode == "C15" {
		for i, f := range s.Files {
			fin, ok := quit.Final[string(f.Name)]
			if !ok {
				return nil, false, fmt.Errorf("file %q missing from the final record", f.Name)
			}
			if cov[i].full() {
				if !bytes.Equal(fin.Body, f.content()) {
					return nil, false, fmt.Errorf("at the end file %q (%d bytes, all received) has a %d-byte body that differs from the original", f.Name, f.Size, len(fin.Body))
				}
			} else if len(fin.Body) != 0 {
				return nil, false, fmt.Errorf("at the end incomplete file %q (%d of %d bytes) has a %d-byte body", f.Name, cov[i].n, f.Size, len(fin.Body))
			}
		}
	}
	labels = []string{fmt.Sprintf("dialect%d", s.Dialect), "cuts_" + s.CutMode}
	lab := func(b bool, l string) {
		if b {
			labels = append(labels, l)
		}
	}
	lab(markerMeta, "marker_in_metadata")
	lab(dups, "resent_chunk")
	lab(gapsSeen, "gaps_at_1212")
	lab(multiGap, "gaps>=2")
	lab(outOfOrder, "chunks_out_of_order")
	lab(len(s.Files) >= 2, "files>=2")
	lab(reannounced, "announced_twice")
	lab(manyRanges, "ranges>=32")
	lab(len(s.Files) >= 12, "announcement_near_the_body_limit")
	lab(len(s.Files) > 0 && len(s.Files[0].Name) > 200, "name_longer_than_200_bytes")
	nChunks := 0
	for _, it := range s.Items {
		if it.Kind == "chunk" {
			nChunks++
		}
	}
	if mode == "C15" {
		nt = (len(s.Files) >= 2 || nChunks >= 3) && (outOfOrder || s.CutMode == "control_plus_next" || s.CutMode == "coalesce_all" || s.CutMode == "random")
	} else {
		nt = multiGap
	}
	return labels, nt, nil
}

type c15Case struct {
	S upScript `json:"script"`
	// Later: another terminal (other phone, other header layout) uploads on a second connection to the same server
	// afterwards; its session is judged by the same model (connections of one server share nothing of a session)
	Later *upScript `json:"later_session_of_another_terminal,omitempty"`
}

func genLaterSession(t *rapid.T, first upScript) *upScript {
	s := upScript{Dialect: first.Dialect, V2019: !first.V2019, Phone: "13900139000", TerminalID: genIDBytes(t, "tid2", ref.DialectIDLen[first.Dialect]), AlarmID: genIDBytes(t, "aid2", 32), CutMode: "per_item"}
	if rapid.Bool().Draw(t, "same_layout") {
		s.V2019 = first.V2019
	}
	size := rapid.IntRange(1, 300).Draw(t, "size2")
	s.Files = []upFile{{Name: genName(t, "name2", 20, map[string]bool{}), Size: size, Seed: 99}}
	half := size / 2
	s.Items = []upItem{{Kind: "1210"}, {Kind: "1211"}}
	if half > 0 && rapid.Bool().Draw(t, "gap2") {
		s.Items = append(s.Items, upItem{Kind: "chunk", Off: half, Len: size - half}, upItem{Kind: "1212"}, upItem{Kind: "chunk", Off: 0, Len: half}, upItem{Kind: "1212"})
	} else {
		s.Items = append(s.Items, upItem{Kind: "chunk", Off: 0, Len: size}, upItem{Kind: "1212"})
	}
	return &s
}

func checkUpload(mode string) func(c c15Case, _ *kit.Collector) kit.Result {
	return func(c c15Case, _ *kit.Collector) kit.Result {
		res := kit.Result{}
		if c.Later != nil {
			sharedSrv = newSharedServer(c.S.Dialect)
			defer func() { sharedSrv = nil }()
		}
		r := runUpload(c.S)
		res.Labels, res.NT, res.Err = judgeUpload(c.S, r, mode)
		if res.Err == nil && c.Later != nil {
			r2 := runUpload(*c.Later)
			if _, _, err := judgeUpload(*c.Later, r2, mode); err != nil {
				res.Err = kit.Fail("second connection to the same server (terminal %s, 2019 layout %v) after the first session: %v", c.Later.Phone, c.Later.V2019, err)
			}
			res.Labels = append(res.Labels, "later_session_on_the_same_server")
		}
		return res
	}
}

func TestC15(t *testing.T) {
	kit.Run(t, kit.Prop[c15Case]{ID: "C15", Part: "TestC15", Gen: func(t *rapid.T) c15Case {
		c := c15Case{S: genUpload(t, rapid.Bool().Draw(t, "gaps"))}
		if rapid.IntRange(0, 2).Draw(t, "later") == 0 {
			c.Later = genLaterSession(t, c.S)
		}
		return c
	}, Check: checkUpload("C15")})
}

func TestC16Driven(t *testing.T) {
	kit.Run(t, kit.Prop[c15Case]{ID: "C16", Part: "TestC16Driven", Gen: func(t *rapid.T) c15Case { return c15Case{S: genUpload(t, true)} }, Check: checkUpload("C16")})
}
