package ext

import (
	"bytes"
	"encoding/hex"
	"fmt"

	"verif/harness/kit"
	"verif/harness/ref"

	"github.com/cuteLittleDevil/go-jt808/service"
	"pgregory.net/rapid"
)

// frameSpec is the JSON form of one terminal frame built by the reference builder.
type frameSpec struct {
	ID         uint16  `json:"id"`
	V2019      bool    `json:"v2019"`
	Phone      kit.Hex `json:"phone_bcd"`
	Serial     uint16  `json:"serial"`
	Fragmented bool    `json:"fragmented"`
	Total      uint16  `json:"total"`
	No         uint16  `json:"no"`
	Body       kit.Hex `json:"body"`
}

func (f frameSpec) bytes() []byte {
	return ref.Spec{ID: f.ID, Version2019: f.V2019, VersionByte: 1, PhoneBCD: f.Phone, Serial: f.Serial, Fragmented: f.Fragmented,
		Total: f.Total, No: f.No, Body: f.Body}.Build()
}

func phoneFor(v2019 bool) kit.Hex {
	if v2019 {
		return ref.PhoneBCDFromDigits("13800138000", 10)
	}
	return ref.PhoneBCDFromDigits("13800138000", 6)
}

var specials = []byte{0x7e, 0x7d, 0x01, 0x02}

func genBody(t *rapid.T, n int, label string) []byte {
	out := make([]byte, n)
	if n == 0 {
		return out
	}
	switch rapid.IntRange(0, 3).Draw(t, label+"_style") {
	case 0:
		copy(out, rapid.SliceOfN(rapid.Byte(), n, n).Draw(t, label))
	case 1: // escape dense
		for i := range out {
			if rapid.IntRange(0, 9).Draw(t, label+"_d") < 6 {
				out[i] = rapid.SampledFrom(specials).Draw(t, label+"_s")
			} else {
				out[i] = rapid.Byte().Draw(t, label+"_b")
			}
		}
	case 2: // escape free (fast path of unescape)
		for i := range out {
			out[i] = byte(rapid.IntRange(0x20, 0x7c).Draw(t, label+"_c"))
		}
	default:
		f := rapid.SampledFrom([]byte{0x7e, 0x7d, 0x41, 0x00}).Draw(t, label+"_fill")
		for i := range out {
			out[i] = f
		}
	}
	return out
}

func genBodyLen(t *rapid.T, label string) int {
	switch rapid.IntRange(0, 9).Draw(t, label+"_k") {
	case 0:
		return rapid.SampledFrom([]int{0, 1, 511, 512, 1000, 1022, 1023}).Draw(t, label)
	case 1:
		return rapid.IntRange(0, 1023).Draw(t, label)
	default:
		return rapid.IntRange(0, 40).Draw(t, label)
	}
}

func genU16(t *rapid.T, label string) uint16 {
	if rapid.IntRange(0, 7).Draw(t, label+"_k") == 0 {
		return rapid.SampledFrom([]uint16{0, 1, 0x7e, 0x7d, 0x7e7e, 0x7d02, 0xffff, 0xfffe}).Draw(t, label)
	}
	return rapid.Uint16().Draw(t, label)
}

// delivered is one message returned by the extractor, with a deep snapshot taken at delivery.
type delivered struct {
	ptr      *service.Message
	feed     int
	id       uint16
	serial   uint16
	sum, no  uint16
	phone    string
	complete bool
	body     []byte
	data     []byte
}

func snapshot(m *service.Message, feed int) delivered {
	return delivered{ptr: m, feed: feed, id: m.JTMessage.Header.ID, serial: m.JTMessage.Header.SerialNumber, sum: m.JTMessage.Header.SubPackageSum,
		no: m.JTMessage.Header.SubPackageNo, phone: m.JTMessage.Header.TerminalPhoneNo, complete: m.ExtensionFields.SubcontractComplete,
		body: append([]byte(nil), m.JTMessage.Body...), data: append([]byte(nil), m.ExtensionFields.TerminalData...)}
}

// stable reports how a delivered message differs now from its snapshot ("" = unchanged).
func (d delivered) stable() string {
	m := d.ptr
	switch {
	case m.JTMessage.Header.ID != d.id:
		return fmt.Sprintf("ID %#04x -> %#04x", d.id, m.JTMessage.Header.ID)
	case m.JTMessage.Header.SerialNumber != d.serial:
		return fmt.Sprintf("serial %d -> %d", d.serial, m.JTMessage.Header.SerialNumber)
	case m.JTMessage.Header.TerminalPhoneNo != d.phone:
		return fmt.Sprintf("phone %q -> %q", d.phone, m.JTMessage.Header.TerminalPhoneNo)
	case m.JTMessage.Header.SubPackageSum != d.sum || m.JTMessage.Header.SubPackageNo != d.no:
		return "package numbers changed"
	case !bytes.Equal(m.JTMessage.Body, d.body):
		return fmt.Sprintf("Body %s -> %s", hx(d.body), hx(m.JTMessage.Body))
	case !bytes.Equal(m.ExtensionFields.TerminalData, d.data):
		return fmt.Sprintf("TerminalData %s -> %s", hx(d.data), hx(m.ExtensionFields.TerminalData))
	}
	return ""
}

func hx(b []byte) string {
	if len(b) > 40 {
		return hex.EncodeToString(b[:40]) + fmt.Sprintf("...(%d bytes)", len(b))
	}
	return hex.EncodeToString(b)
}

// feeder hands parts to the extractor either as caller-owned fresh slices or, like connection.reader,
// through one reused 1023-byte buffer.
type feeder struct {
	ex    *service.VerifExtractor
	reuse bool
	buf   []byte
	feeds int
	all   []delivered
}

func newFeeder(reuse bool) *feeder {
	return &feeder{ex: service.NewVerifExtractor(), reuse: reuse, buf: make([]byte, 1023)}
}

func (f *feeder) feed(part []byte) ([]delivered, error) {
	var in []byte
	if f.reuse {
		if len(part) > len(f.buf) {
			panic("HARNESS-ERROR part larger than the read buffer")
		}
		n := copy(f.buf, part)
		in = f.buf[:n]
	} else {
		in = append([]byte(nil), part...)
	}
	msgs, err := f.ex.Feed(in)
	out := make([]delivered, 0, len(msgs))
	for _, m := range msgs {
		out = append(out, snapshot(m, f.feeds))
	}
	f.feeds++
	f.all = append(f.all, out...)
	return out, err
}

// split cuts stream at the given ascending positions and additionally so that no part exceeds 1023 bytes.
func split(stream []byte, cuts []int) [][]byte {
	var parts [][]byte
	prev := 0
	add := func(to int) {
		for prev < to {
			n := min(to-prev, 1023)
			parts = append(parts, stream[prev:prev+n])
			prev += n
		}
	}
	for _, c := range cuts {
		if c > prev && c < len(stream) {
			add(c)
		}
	}
	add(len(stream))
	return parts
}
