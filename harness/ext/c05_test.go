package ext

import (
	"bytes"
	"fmt"
	"sort"
	"testing"

	"verif/harness/kit"

	"pgregory.net/rapid"
)

// C05: sub-package reassembly delivers exactly the original message.

type transfer struct {
	ID     uint16    `json:"msg_id"`
	V2019  bool      `json:"v2019"`
	Bodies []kit.Hex `json:"packet_bodies"` // index i = package number i+1
}

// event is one frame of the arrival history.
type event struct {
	Kind string  `json:"kind"` // "pkt" | "impossible" | "plain"
	T    int     `json:"transfer,omitempty"`
	No   uint16  `json:"no,omitempty"` // package number (pkt / impossible)
	Ser  uint16  `json:"serial"`
	Body kit.Hex `json:"body,omitempty"` // plain / impossible
}

type c05Case struct {
	Transfers []transfer `json:"transfers"`
	Events    []event    `json:"events"`
	Cuts      string     `json:"cut_mode"` // per_frame | all_in_one | random
	CutAt     []int      `json:"cuts,omitempty"`
	Reuse     bool       `json:"reader_style_reused_buffer"`
}

func (c c05Case) frame(e event) frameSpec {
	switch e.Kind {
	case "plain":
		return frameSpec{ID: 0x0002, Phone: phoneFor(false), Serial: e.Ser, Body: e.Body}
	case "plain_same_id": // an ordinary, unfragmented message that carries the message ID of a transfer
		tr := c.Transfers[e.T]
		return frameSpec{ID: tr.ID, V2019: tr.V2019, Phone: phoneFor(tr.V2019), Serial: e.Ser, Body: e.Body}
	case "impossible":
		tr := c.Transfers[e.T]
		return frameSpec{ID: tr.ID, V2019: tr.V2019, Phone: phoneFor(tr.V2019), Serial: e.Ser, Fragmented: true, Total: uint16(len(tr.Bodies)), No: e.No, Body: e.Body}
	}
	tr := c.Transfers[e.T]
	return frameSpec{ID: tr.ID, V2019: tr.V2019, Phone: phoneFor(tr.V2019), Serial: e.Ser, Fragmented: true, Total: uint16(len(tr.Bodies)), No: e.No, Body: tr.Bodies[e.No-1]}
}

func genTransfer(t *rapid.T, id uint16, label string) transfer {
	tr := transfer{ID: id, V2019: rapid.Bool().Draw(t, label+"_v")}
	n := 1
	switch rapid.IntRange(0, 9).Draw(t, label+"_nk") {
	case 0:
		n = 1
	case 1:
		n = rapid.IntRange(6, 40).Draw(t, label+"_nbig")
	default:
		n = rapid.IntRange(2, 5).Draw(t, label+"_n")
	}
	equal := rapid.Bool().Draw(t, label+"_equal")
	l0 := rapid.IntRange(1, 24).Draw(t, label+"_l0")
	for i := 0; i < n; i++ {
		l := l0
		if !equal {
			l = rapid.IntRange(1, 24).Draw(t, label+"_l")
			if rapid.IntRange(0, 15).Draw(t, label+"_long") == 0 {
				l = rapid.IntRange(500, 1000).Draw(t, label+"_ll")
			}
		}
		tr.Bodies = append(tr.Bodies, genBody(t, l, label+"_b"))
	}
	return tr
}

// arrival order of one transfer: packet 1 first, then a permutation of 2..N with duplicates of 2..N inserted.
func genArrival(t *rapid.T, n int, label string) []uint16 {
	rest := make([]uint16, 0, n)
	for i := 2; i <= n; i++ {
		rest = append(rest, uint16(i))
	}
	if len(rest) > 1 && rapid.IntRange(0, 3).Draw(t, label+"_shuffle") != 0 {
		rest = rapid.Permutation(rest).Draw(t, label+"_perm")
	}
	order := []uint16{1}
	for _, r := range rest {
		order = append(order, r)
		if n >= 2 && rapid.IntRange(0, 4).Draw(t, label+"_dup") == 0 {
			// duplicate of a packet 2..N that has already been sent or is sent later
			order = append(order, uint16(rapid.IntRange(2, n).Draw(t, label+"_dupno")))
		}
	}
	return order
}

func genC05(t *rapid.T) c05Case {
	c := c05Case{Reuse: rapid.Bool().Draw(t, "reuse")}
	c.Transfers = append(c.Transfers, genTransfer(t, rapid.SampledFrom([]uint16{0x0801, 0x0704, 0x0200, 0x0104}).Draw(t, "id0"), "t0"))
	if rapid.IntRange(0, 2).Draw(t, "two") == 0 {
		c.Transfers = append(c.Transfers, genTransfer(t, 0x1205, "t1"))
	}
	queues := make([][]uint16, len(c.Transfers))
	for i, tr := range c.Transfers {
		queues[i] = genArrival(t, len(tr.Bodies), fmt.Sprintf("arr%d", i))
	}
	started := make([]bool, len(c.Transfers))
	restarted := false
	ser := uint16(rapid.IntRange(0, 65535).Draw(t, "serial0"))
	remaining := 0
	for _, q := range queues {
		remaining += len(q)
	}
	for remaining > 0 {
		// interleave: pick a transfer that still has packets
		k := rapid.IntRange(0, len(queues)-1).Draw(t, "which")
		if len(queues[k]) == 0 {
			k = 1 - k
		}
		no := queues[k][0]
		queues[k] = queues[k][1:]
		remaining--
		c.Events = append(c.Events, event{Kind: "pkt", T: k, No: no, Ser: ser})
		ser++
		started[k] = true
		if !restarted && len(c.Transfers[k].Bodies) >= 3 && len(queues[k]) >= 1 && rapid.IntRange(0, 9).Draw(t, "restart") == 0 {
			// the terminal abandons the incomplete transfer and sends the same message ID again from packet 1
			restarted = true
			c.Events = append(c.Events, event{Kind: "pkt", T: k, No: 1, Ser: ser})
			ser++
			fresh := genArrival(t, len(c.Transfers[k].Bodies), fmt.Sprintf("rearr%d", k))[1:]
			remaining += len(fresh) - len(queues[k])
			queues[k] = fresh
		}
		switch rapid.IntRange(0, 7).Draw(t, "extra") {
		case 2: // ordinary (unfragmented) message with the ID of a started transfer: it belongs to no transfer
			c.Events = append(c.Events, event{Kind: "plain_same_id", T: k, Ser: ser, Body: genBody(t, rapid.IntRange(0, 8).Draw(t, "same_len"), "same_body")})
			ser++
		case 0: // ordinary message in between
			c.Events = append(c.Events, event{Kind: "plain", Ser: ser, Body: nil})
			ser++
		case 1: // impossible packet of a started transfer
			tr := c.Transfers[k]
			no := rapid.SampledFrom([]uint16{0, uint16(len(tr.Bodies) + 1), uint16(len(tr.Bodies) + 7), 0xffff}).Draw(t, "imp_no")
			c.Events = append(c.Events, event{Kind: "impossible", T: k, No: no, Ser: ser, Body: genBody(t, rapid.IntRange(1, 8).Draw(t, "imp_len"), "imp_body")})
			ser++
		}
	}
	c.Cuts = rapid.SampledFrom([]string{"per_frame", "per_frame", "all_in_one", "random"}).Draw(t, "cutmode")
	if c.Cuts == "random" {
		total := 0
		for _, e := range c.Events {
			total += len(c.frame(e).bytes())
		}
		k := rapid.IntRange(1, 10).Draw(t, "k")
		for i := 0; i < k; i++ {
			c.CutAt = append(c.CutAt, rapid.IntRange(1, max(1, total-1)).Draw(t, "cut"))
		}
		sort.Ints(c.CutAt)
	}
	return c
}

// model of the reassembler (written from the property statement).
type reasm struct {
	slots [][]byte
	open  bool
	done  bool
}

func checkC05(c c05Case, _ *kit.Collector) kit.Result {
	res := kit.Result{}
	var stream []byte
	var ends []int
	for _, e := range c.Events {
		stream = append(stream, c.frame(e).bytes()...)
		ends = append(ends, len(stream))
	}
	var cuts []int
	switch c.Cuts {
	case "per_frame":
		cuts = ends[:len(ends)-1]
	case "random":
		cuts = c.CutAt
	}
	parts := split(stream, cuts)
	fd := newFeeder(c.Reuse)
	models := make([]reasm, len(c.Transfers))
	completesWant := make([]int, len(c.Transfers)) // completed deliveries expected so far
	completesGot := make([]int, len(c.Transfers))
	consumed, next := 0, 0
	dups, imposs, outOfOrder, sameID := false, false, false, false
	restartSeen := false
	seenFirst := make([]bool, len(c.Transfers))
	lastNo := make([]uint16, len(c.Transfers))
	for j, p := range parts {
		consumed += len(p)
		// advance the model over every frame that is complete within the bytes fed so far
		for next < len(ends) && ends[next] <= consumed {
			e := c.Events[next]
			next++
			switch e.Kind {
			case "impossible":
				imposs = true
			case "plain_same_id":
				sameID = true
			case "pkt":
				m := &models[e.T]
				tr := c.Transfers[e.T]
				if e.No < lastNo[e.T] {
					outOfOrder = true
				}
				lastNo[e.T] = e.No
				if e.No == 1 {
					if seenFirst[e.T] && m.open {
						restartSeen = true
					}
					seenFirst[e.T] = true
					*m = reasm{slots: make([][]byte, len(tr.Bodies)), open: true}
				}
				if !m.open {
					if m.done {
						dups = true
					}
					continue
				}
				if m.slots[e.No-1] != nil {
					dups = true
				}
				m.slots[e.No-1] = tr.Bodies[e.No-1]
				full := true
				for _, s := range m.slots {
					if s == nil {
						full = false
					}
				}
				if full {
					m.open, m.done = false, true
					completesWant[e.T]++
				}
			}
		}
		out, err := fd.feed(p)
		if err != nil {
			res.Err = kit.Fail("read %d: extractor returned error %v", j, err)
			return res
		}
		for _, d := range out {
			if !d.complete {
				continue
			}
			k := -1
			for i, tr := range c.Transfers {
				if tr.ID == d.id {
					k = i
				}
			}
			if k < 0 {
				res.Err = kit.Fail("read %d: complete message for unknown id %#04x", j, d.id)
				return res
			}
			completesGot[k]++
			var want []byte
			for _, b := range c.Transfers[k].Bodies {
				want = append(want, b...)
			}
			if !bytes.Equal(d.body, want) {
				res.Err = kit.Fail("read %d: complete message id %#04x has body %s, want the %d packet bodies in package-number order %s", j, d.id, hx(d.body), len(c.Transfers[k].Bodies), hx(want))
				return res
			}
		}
		for k := range c.Transfers {
			if completesGot[k] != completesWant[k] {
				res.Err = kit.Fail("after read %d: transfer %d (id %#04x, %d packets) delivered complete %d times, model says %d (a complete message must appear in the read that brings the last missing packet, and only then)", j, k, c.Transfers[k].ID, len(c.Transfers[k].Bodies), completesGot[k], completesWant[k])
				return res
			}
		}
	}
	// everything delivered must still be what it was at delivery (the completed body in particular)
	for _, d := range fd.all {
		if d.complete {
			if s := d.stable(); s != "" {
				res.Err = kit.Fail("complete message id %#04x changed after delivery: %s", d.id, s)
				return res
			}
		}
	}
	n := len(c.Transfers[0].Bodies)
	res.Labels = []string{"cuts_" + c.Cuts, fmt.Sprintf("N_%s", map[bool]string{true: "1-2", false: ">=3"}[n <= 2])}
	lab := func(b bool, s string) {
		if b {
			res.Labels = append(res.Labels, s)
		}
	}
	lab(dups, "duplicates")
	lab(imposs, "impossible_packet")
	lab(sameID, "unfragmented_message_with_a_transfers_id")
	lab(outOfOrder, "out_of_order")
	lab(len(c.Transfers) == 2, "two_transfers")
	lab(restartSeen, "transfer_restarted")
	lab(c.Reuse, "reused_buffer")
	res.NT = (n >= 3 && outOfOrder) || dups || imposs
	return res
}

func TestC05(t *testing.T) {
	kit.Run(t, kit.Prop[c05Case]{ID: "C05", Part: "TestC05", Gen: genC05, Check: checkC05})
}

// TestC05Enum: all (N-1)! orders for N <= 5 x every single-duplicate insertion x {packet per read, all in one read} x both feeding styles.
func TestC05Enum(t *testing.T) {
	kit.Enum(t, "C05", "TestC05Enum", "TestC05", func(col *kit.Collector) (any, error) {
		var space int64
		var permute func(a []uint16, k int, f func([]uint16) error) error
		permute = func(a []uint16, k int, f func([]uint16) error) error {
			if k == len(a) {
				return f(a)
			}
			for i := k; i < len(a); i++ {
				a[k], a[i] = a[i], a[k]
				if err := permute(a, k+1, f); err != nil {
					return err
				}
				a[k], a[i] = a[i], a[k]
			}
			return nil
		}
		var bad any
		for n := 1; n <= 5; n++ {
			tr := transfer{ID: 0x0801}
			for i := 0; i < n; i++ {
				tr.Bodies = append(tr.Bodies, bytes.Repeat([]byte{byte(0x41 + i)}, 3+i%2))
			}
			rest := []uint16{}
			for i := 2; i <= n; i++ {
				rest = append(rest, uint16(i))
			}
			err := permute(rest, 0, func(p []uint16) error {
				base := append([]uint16{1}, p...)
				variants := [][]uint16{base}
				for pos := 1; pos <= len(base); pos++ {
					for d := 2; d <= n; d++ {
						v := append(append(append([]uint16{}, base[:pos]...), uint16(d)), base[pos:]...)
						variants = append(variants, v)
					}
				}
				for _, order := range variants {
					for _, cutMode := range []string{"per_frame", "all_in_one"} {
						for _, reuse := range []bool{false, true} {
							c := c05Case{Transfers: []transfer{tr}, Cuts: cutMode, Reuse: reuse}
							for i, no := range order {
								c.Events = append(c.Events, event{Kind: "pkt", T: 0, No: no, Ser: uint16(100 + i)})
							}
							res := checkC05(c, col)
							res.NT = true
							space++
							col.RecordHash(kit.HashJSON(c), res, func() any { return c })
							if res.Err != nil {
								bad = c
								return res.Err
							}
						}
					}
				}
				return nil
			})
			if err != nil {
				return bad, err
			}
		}
		col.SetExhaustive(true, space)
		return nil, nil
	})
}
