// Package kit is the shared scaffold of every generated check: it binds a rapid
// generator and a pure check function together, records evidence (what was
// generated, how much of it was non-trivial, samples), writes the minimal
// failing case as a JSON replay file, and re-runs such a file without rapid.
package kit

import (
	"encoding/hex"
	"encoding/json"
	"fmt"
	"hash/fnv"
	"io"
	"log/slog"
	"os"
	"runtime/debug"
	"sort"
	"strconv"
	"strings"
	"sync"
	"testing"
	"time"

	"pgregory.net/rapid"
)

// Hex is a byte slice that is written as a hex string in replay/evidence files.
type Hex []byte

func (h Hex) MarshalJSON() ([]byte, error) { return json.Marshal(hex.EncodeToString(h)) }
func (h *Hex) UnmarshalJSON(b []byte) error {
	var s string
	if err := json.Unmarshal(b, &s); err != nil {
		return err
	}
	d, err := hex.DecodeString(s)
	if err != nil {
		return err
	}
	*h = d
	return nil
}

// Result is what a check function says about one case.
type Result struct {
	Labels   []string // classification buckets of this case
	NT       bool     // non-trivial by the property's stated rule
	Excluded string   // non-empty: case belongs to a known-finding class and was not judged
	Stripped []string // known-finding classes whose part of the case was removed before judging (counted)
	Err      error    // non-nil: the property is violated by this case
}

func Fail(format string, a ...any) error { return fmt.Errorf(format, a...) }

// ---------------------------------------------------------------------------
// environment

func Tier() string {
	if v := os.Getenv("VERIF_TIER"); v != "" {
		return v
	}
	return "quick"
}
func Thorough() bool { return Tier() == "thorough" }

func envInt(name string, def int) int {
	if v := os.Getenv(name); v != "" {
		if n, err := strconv.Atoi(v); err == nil {
			return n
		}
	}
	return def
}

// Shard returns (index, count) of this process within the fan-out of the driver.
func Shard() (int, int) { return envInt("VERIF_SHARD", 0), envInt("VERIF_SHARDS", 1) }

// Seed is the VERIF_SEED derived per-shard seed given by the driver (for enumerators that sample).
func Seed() uint64 {
	if v := os.Getenv("VERIF_SHARD_SEED"); v != "" {
		if n, err := strconv.ParseUint(v, 10, 64); err == nil {
			return n
		}
	}
	return 1
}

// ---------------------------------------------------------------------------
// known findings (read-only at run time)

type Finding struct {
	Property string `json:"property"`
	Key      string `json:"key"`
	Status   string `json:"status"` // "finding" | "fixed"
	What     string `json:"what"`
}

var (
	knownOnce sync.Once
	known     map[string]bool
)

// Known reports whether key is listed as an open finding in known_findings.json.
// Only then may a generator/check exclude that class of cases.
func Known(key string) bool {
	knownOnce.Do(func() {
		known = map[string]bool{}
		path := os.Getenv("VERIF_KNOWN")
		if path == "" {
			path = "/verif/known_findings.json"
		}
		b, err := os.ReadFile(path)
		if err != nil {
			return
		}
		var doc struct {
			Findings []Finding `json:"findings"`
		}
		if json.Unmarshal(b, &doc) != nil {
			return
		}
		for _, f := range doc.Findings {
			if f.Status == "finding" {
				known[f.Key] = true
			}
		}
	})
	if os.Getenv("VERIF_NO_EXCLUDE") != "" {
		return false
	}
	return known[key]
}

// ---------------------------------------------------------------------------
// evidence

const maxHashes = 200000

type Collector struct {
	mu          sync.Mutex
	Evaluations int64            `json:"evaluations"`
	NonTrivial  int64            `json:"nontrivial_evaluations"`
	Buckets     map[string]int64 `json:"buckets"`
	Excluded    map[string]int64 `json:"excluded_known"`
	Samples     []Sample         `json:"samples"`
	Exhaustive  *bool            `json:"exhaustive,omitempty"`
	Space       int64            `json:"space,omitempty"`
	Notes       []string         `json:"notes,omitempty"`
	hashes      map[uint64]struct{}
	Capped      bool `json:"hash_set_capped"`
	perLabel    map[string]int
	frozen      bool
}

type Sample struct {
	Labels []string        `json:"labels"`
	Case   json.RawMessage `json:"case"`
}

func NewCollector() *Collector {
	return &Collector{Buckets: map[string]int64{}, Excluded: map[string]int64{}, hashes: map[uint64]struct{}{}, perLabel: map[string]int{}}
}

// Freeze stops counting (used once a failure has been seen: shrinking is not exploration).
func (c *Collector) Freeze() { c.mu.Lock(); c.frozen = true; c.mu.Unlock() }

func (c *Collector) Note(s string) { c.mu.Lock(); c.Notes = append(c.Notes, s); c.mu.Unlock() }

func (c *Collector) SetExhaustive(ok bool, space int64) {
	c.mu.Lock()
	c.Exhaustive = &ok
	c.Space = space
	c.mu.Unlock()
}

// RecordHash records one evaluated case given a precomputed hash; sample is
// called lazily only if the case is kept as a sample.
func (c *Collector) RecordHash(h uint64, res Result, sample func() any) {
	c.mu.Lock()
	defer c.mu.Unlock()
	if c.frozen {
		return
	}
	if res.Excluded != "" {
		c.Excluded[res.Excluded]++
		return
	}
	c.Evaluations++
	for _, s := range res.Stripped {
		c.Excluded[s]++
	}
	for _, l := range res.Labels {
		c.Buckets[l]++
	}
	if res.NT {
		c.NonTrivial++
		if len(c.hashes) < maxHashes {
			c.hashes[h] = struct{}{}
		} else {
			c.Capped = true
		}
	}
	if len(c.Samples) < 24 && sample != nil {
		want := false
		for _, l := range res.Labels {
			if c.perLabel[l] < 1 {
				want = true
			}
		}
		if len(c.Samples) < 2 {
			want = true
		}
		if want {
			b, err := json.Marshal(sample())
			if err == nil {
				if len(b) > 1500 {
					b, _ = json.Marshal(string(b[:1500]) + "...(truncated)")
				}
				for _, l := range res.Labels {
					c.perLabel[l]++
				}
				c.Samples = append(c.Samples, Sample{Labels: res.Labels, Case: b})
			}
		}
	}
}

func HashJSON(v any) uint64 {
	b, _ := json.Marshal(v)
	h := fnv.New64a()
	h.Write(b)
	return h.Sum64()
}

func HashBytes(parts ...[]byte) uint64 {
	h := fnv.New64a()
	for _, p := range parts {
		h.Write(p)
		h.Write([]byte{0xff, 0x00, 0xfe})
	}
	return h.Sum64()
}

func (c *Collector) Record(cs any, res Result) {
	c.RecordHash(HashJSON(cs), res, func() any { return cs })
}

type evidenceFile struct {
	*Collector
	Hashes []string `json:"nt_hashes"`
	Failed bool     `json:"failed"`
	Name   string   `json:"part"`
}

func (c *Collector) write(name string, failed bool) {
	out := os.Getenv("VERIF_OUT")
	if out == "" {
		return
	}
	c.mu.Lock()
	defer c.mu.Unlock()
	hs := make([]string, 0, len(c.hashes))
	for h := range c.hashes {
		hs = append(hs, strconv.FormatUint(h, 16))
	}
	sort.Strings(hs)
	b, _ := json.Marshal(evidenceFile{Collector: c, Hashes: hs, Failed: failed, Name: name})
	_ = os.WriteFile(out+".ev.json", b, 0o644)
}

// ---------------------------------------------------------------------------
// running

// Quiet silences the library's own printing (it prints from hot paths) and slog.
var quietOnce sync.Once

func Quiet() {
	quietOnce.Do(func() {
		slog.SetDefault(slog.New(slog.NewTextHandler(io.Discard, &slog.HandlerOptions{Level: slog.LevelError + 10})))
		if os.Getenv("VERIF_KEEP_STDOUT") == "" {
			if f, err := os.OpenFile(os.DevNull, os.O_WRONLY, 0); err == nil {
				RealStdout = os.Stdout
				os.Stdout = f
			}
		}
	})
}

// RealStdout is the process's original stdout (os.Stdout is redirected to /dev/null by Quiet).
var RealStdout = os.Stdout

// Safely runs f and turns a panic into an error carrying the stack.
func Safely(f func() error) (err error) {
	defer func() {
		if r := recover(); r != nil {
			st := string(debug.Stack())
			if len(st) > 3000 {
				st = st[:3000]
			}
			err = fmt.Errorf("PANIC: %v\n%s", r, st)
		}
	}()
	return f()
}

type Prop[C any] struct {
	// Deadline, when non-zero, is the promptness bound of one case: a watchdog records the case that
	// is still running after this long as a failure ("did not terminate") and ends the process.
	Deadline time.Duration
	ID       string
	Part     string // name of this part (test function) in the evidence
	Gen      func(t *rapid.T) C
	Check    func(c C, col *Collector) Result
}

func writeFail(part string, v any, err error) {
	out := os.Getenv("VERIF_OUT")
	if out == "" {
		return
	}
	b, _ := json.MarshalIndent(map[string]any{"part": part, "case": v, "error": truncate(fmt.Sprint(err), 4000)}, "", " ")
	_ = os.WriteFile(out+".fail.json", b, 0o644)
}

func truncate(s string, n int) string {
	if len(s) > n {
		return s[:n] + "...(truncated)"
	}
	return s
}

// FuzzReport saves the failing case of a native fuzz target in the replay format of the rapid property
// `part` (the fuzzer's minimisation calls the target again, so the last file written is the minimised case).
func FuzzReport(part string, c any, err error) { writeFail(part, c, err) }

// ReplayPath is non-empty when the binary is asked to replay one saved case.
func ReplayPath() string { return os.Getenv("VERIF_REPLAY") }

func loadReplay[C any](path string) (C, error) {
	var c C
	b, err := os.ReadFile(path)
	if err != nil {
		return c, err
	}
	var doc struct {
		Case json.RawMessage `json:"case"`
	}
	if err := json.Unmarshal(b, &doc); err != nil {
		return c, err
	}
	if len(doc.Case) == 0 {
		return c, fmt.Errorf("replay file %s has no case", path)
	}
	err = json.Unmarshal(doc.Case, &c)
	return c, err
}

// Run executes the property: as a replay of one saved case when VERIF_REPLAY is
// set (no rapid, no PRNG), otherwise as a rapid property whose evidence and
// minimal failing case are written next to $VERIF_OUT.
func Run[C any](t *testing.T, p Prop[C]) {
	Quiet()
	col := NewCollector()
	if path := ReplayPath(); path != "" {
		c, err := loadReplay[C](path)
		if err != nil {
			t.Fatalf("REPLAY-LOAD-ERROR %v", err)
		}
		var res Result
		perr := Safely(func() error { res = p.Check(c, col); return res.Err })
		col.Record(c, Result{Labels: []string{"replay"}, NT: true})
		col.write(p.Part, perr != nil)
		if perr != nil {
			t.Fatalf("REPLAY-FAIL %s: %v", p.ID, perr)
		}
		return
	}
	var (
		last    any
		lastErr error
		failed  bool
	)
	defer func() {
		col.write(p.Part, t.Failed() || failed)
		if t.Failed() || failed {
			writeFail(p.Part, last, lastErr)
		}
	}()
	var (
		wdMu      sync.Mutex
		wdCase    any
		wdStarted time.Time
	)
	if p.Deadline > 0 {
		go func() {
			for {
				time.Sleep(p.Deadline / 4)
				wdMu.Lock()
				c, st := wdCase, wdStarted
				wdMu.Unlock()
				if c != nil && time.Since(st) > p.Deadline {
					col.write(p.Part, true)
					writeFail(p.Part, c, fmt.Errorf("case did not terminate within %v (promptness)", p.Deadline))
					os.Exit(1)
				}
			}
		}()
	}
	rapid.Check(t, func(rt *rapid.T) {
		c := p.Gen(rt)
		if p.Deadline > 0 {
			wdMu.Lock()
			wdCase, wdStarted = c, time.Now()
			wdMu.Unlock()
			defer func() { wdMu.Lock(); wdCase = nil; wdMu.Unlock() }()
		}
		var res Result
		err := Safely(func() error { res = p.Check(c, col); return res.Err })
		if err != nil {
			col.Freeze()
			failed = true
			last, lastErr = c, err
			rt.Fatalf("%s violated: %v", p.ID, truncate(err.Error(), 3000))
		}
		col.Record(c, res)
	})
}

// Enum runs an exhaustive (or sharded) enumerator part: body gets the collector
// and returns the first violating case (any JSON-able value) and its error.
// replayPart names the rapid property (test function) whose case type the
// returned violating case has, so that the replay file can be re-run there.
func Enum(t *testing.T, id, part, replayPart string, body func(col *Collector) (any, error)) {
	Quiet()
	col := NewCollector()
	var (
		bad any
		err error
	)
	perr := Safely(func() error { bad, err = body(col); return err })
	col.write(part, perr != nil)
	if perr != nil {
		writeFail(replayPart, bad, perr)
		t.Fatalf("%s violated (%s): %v", id, part, truncate(perr.Error(), 3000))
	}
}

// Labels helper
func L(parts ...string) string { return strings.Join(parts, ":") }
