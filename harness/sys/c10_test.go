package sys

import (
	"fmt"
	"testing"

	"verif/harness/kit"
	"verif/harness/ref"

	"pgregory.net/rapid"
)

// C10 (socket level): hostile input on one connection is contained; a witness session keeps being served and
// new connections are accepted.

type attack struct {
	Stream kit.Hex `json:"stream"`
	Cuts   []int   `json:"write_cuts"`
	Close  string  `json:"close"` // fin | rst | none (left open until the end)
	Class  string  `json:"class"`
	// hostile_responses: the attacker registers, a dispatcher sends it these commands as soon as it is online and it
	// answers each with the echoed serial followed by a hostile body (the server parses responses to outstanding commands)
	Hello    kit.Hex `json:"hello,omitempty"`
	Key      string  `json:"key,omitempty"`
	Commands []Rule  `json:"commands_and_answers,omitempty"`
}

type c10Case struct {
	Witness  convTerminal `json:"witness"`
	Attacks  []attack     `json:"attacks"`
	Handlers string       `json:"handlers"`
	NoFilter bool         `json:"no_filter"`
}

func genAttack(t *rapid.T, k int) attack {
	a := attack{Close: rapid.SampledFrom([]string{"fin", "rst", "none"}).Draw(t, "close")}
	id := identity{Digits: fmt.Sprintf("1570000%04d", 2000+k), V2019: rapid.Bool().Draw(t, "v")}
	serial := uint16(1)
	switch rapid.IntRange(0, 9).Draw(t, "class") {
	case 8, 9:
		a.Class = "hostile_responses"
		a.Hello = frame(id, 0x0002, serial, nil)
		a.Key = id.key()
		word32 := []uint32{0x40000000, 0x80000000, 0xc0000000, 0xffffffff, 0x09249249, 0x12492493, 1, 2, 0x00010000}
		for i, n := 0, rapid.IntRange(1, 3).Draw(t, "cmds"); i < n; i++ {
			r := Rule{Cmd: rapid.SampledFrom([]uint16{0x9205, 0x9205, 0x8104, 0x9206, 0x8801, 0x9003}).Draw(t, "cmd"), Behaviour: "answer"}
			var tail []byte
			switch r.Cmd {
			case 0x9205: // 0x1205: total(4) then 28-byte items
				w := rapid.SampledFrom(word32).Draw(t, "total")
				tail = []byte{byte(w >> 24), byte(w >> 16), byte(w >> 8), byte(w)}
				tail = append(tail, make([]byte, 28*rapid.IntRange(0, 2).Draw(t, "items"))...)
			case 0x9003: // 0x1003 (10 bytes, no echoed serial: the "serial" bytes are part of it)
				r.RespID = 0x1003
				tail = rapid.SliceOfN(rapid.Byte(), 0, 12).Draw(t, "attr")
			case 0x8801: // 0x0805: result(1) count(2) ids(4 each)
				w := rapid.SampledFrom([]uint16{0x4000, 0x8000, 0xc000, 0xffff, 1, 2}).Draw(t, "cnt16")
				tail = append([]byte{0, byte(w >> 8), byte(w)}, make([]byte, 4*rapid.IntRange(0, 2).Draw(t, "ids"))...)
			case 0x8104: // 0x0104: count(1) then id(4) len(1) value
				tail = append([]byte{rapid.SampledFrom([]byte{0, 1, 2, 255}).Draw(t, "cnt8")}, rapid.SliceOfN(rapid.SampledFrom([]byte{0, 1, 4, 0x13, 0x83, 0xff, 0x7e}), 0, 24).Draw(t, "tlv")...)
			default:
				tail = rapid.SliceOfN(rapid.Byte(), 0, 30).Draw(t, "raw")
			}
			if rapid.IntRange(0, 4).Draw(t, "cut_tail") == 0 && len(tail) > 0 {
				tail = tail[:rapid.IntRange(0, len(tail)-1).Draw(t, "cut_at")]
			}
			r.RespTail = append(kit.Hex{}, tail...)
			r.Prefix = []byte{0xa7, byte(i)}
			a.Commands = append(a.Commands, r)
		}
		return a
	case 7:
		// presents the witness's own phone number: must be refused without disturbing the witness
		a.Class = "steal_witness_key"
		for i := 0; i < rapid.IntRange(1, 3).Draw(t, "frames"); i++ {
			a.Stream = append(a.Stream, frame(identity{Digits: "13800130001", V2019: rapid.Bool().Draw(t, "wv2")}, 0x0002, uint16(0x3000+i), nil)...)
		}
	case 0:
		a.Class = "connect_and_close"
	case 1:
		a.Class = "random_bytes"
		n := rapid.IntRange(1, 200).Draw(t, "n")
		a.Stream = rapid.SliceOfN(rapid.Byte(), n, n).Draw(t, "bytes")
	case 2:
		a.Class = "hostile_package_numbers"
		for i := 0; i < rapid.IntRange(1, 4).Draw(t, "frames"); i++ {
			tot := rapid.SampledFrom([]uint16{0, 1, 2, 3, 0xffff}).Draw(t, "tot")
			no := rapid.SampledFrom([]uint16{0, 1, 2, 4, 0xffff}).Draw(t, "no")
			a.Stream = append(a.Stream, fragFrame(id, rapid.SampledFrom([]uint16{0x0200, 0x0801, 0x0704}).Draw(t, "id"), serial, tot, no, []byte{1, 2, 3})...)
			serial++
		}
	case 3:
		a.Class = "hostile_bodies"
		for i := 0; i < rapid.IntRange(1, 6).Draw(t, "frames"); i++ {
			m := rapid.SampledFrom([]uint16{0x0100, 0x0102, 0x0200, 0x0704, 0x0801, 0x0805, 0x0104, 0x1205, 0x1210, 0x1211, 0x1212, 0x8103, 0x8003, 0x9208, 0x9206, 0x9101}).Draw(t, "msg")
			n := rapid.IntRange(0, 60).Draw(t, "bl")
			b := rapid.SliceOfN(rapid.Byte(), n, n).Draw(t, "body")
			for _, p := range []int{0, 1, 2, 3, 4} {
				if p < n && rapid.IntRange(0, 2).Draw(t, "adv") == 0 {
					b[p] = rapid.SampledFrom([]byte{0, 1, 2, 0xff, 240}).Draw(t, "advv")
				}
			}
			a.Stream = append(a.Stream, frame(id, m, serial, b)...)
			serial++
		}
	case 4:
		a.Class = "half_frame"
		f := frame(id, 0x0200, serial, make([]byte, 28))
		a.Stream = f[:rapid.IntRange(1, len(f)-1).Draw(t, "keep")]
	case 5:
		a.Class = "mutated_conversation"
		for i := 0; i < rapid.IntRange(1, 5).Draw(t, "frames"); i++ {
			f := frame(id, rapid.SampledFrom(replyBearing).Draw(t, "msg"), serial, make([]byte, rapid.IntRange(0, 40).Draw(t, "bl")))
			serial++
			if rapid.Bool().Draw(t, "flip") {
				f[rapid.IntRange(0, len(f)-1).Draw(t, "pos")] ^= 1 << rapid.IntRange(0, 7).Draw(t, "bit")
			}
			a.Stream = append(a.Stream, f...)
		}
	default:
		a.Class = "oversized_garbage"
		a.Stream = append([]byte{0x7e}, make([]byte, rapid.IntRange(1100, 4000).Draw(t, "n"))...)
	}
	if len(a.Stream) > 1 {
		for i := 0; i < rapid.IntRange(0, 4).Draw(t, "ncuts"); i++ {
			a.Cuts = append(a.Cuts, rapid.IntRange(1, len(a.Stream)-1).Draw(t, "cut"))
		}
		for i := 1; i < len(a.Cuts); i++ {
			for j := i; j > 0 && a.Cuts[j] < a.Cuts[j-1]; j-- {
				a.Cuts[j], a.Cuts[j-1] = a.Cuts[j-1], a.Cuts[j]
			}
		}
	}
	return a
}

func genC10(t *rapid.T) c10Case {
	c := c10Case{Handlers: rapid.SampledFrom([]string{"", "parse_all"}).Draw(t, "handlers"), NoFilter: rapid.IntRange(0, 3).Draw(t, "nofilter") == 0}
	c.Witness = genConv(t, identity{Digits: "13800130001", V2019: rapid.Bool().Draw(t, "wv")}, 8, !c.NoFilter, "w")
	// the witness is an *established* session: its first message is a heartbeat that is answered before the attack starts
	hello := request{Frames: [][]byte{frame(c.Witness.ID, 0x0002, 0x2ffe, nil)}, MsgID: 0x0002, Serials: []uint16{0x2ffe}, Kind: "reply"}
	c.Witness.Reqs = append([]reqJSON{toJSON(hello, "")}, c.Witness.Reqs...)
	c.Witness.Group = append([]int{1}, c.Witness.Group...)
	c.Witness.Gap = append([]int{0}, c.Witness.Gap...)
	n := rapid.IntRange(1, 5).Draw(t, "attacks")
	for i := 0; i < n; i++ {
		c.Attacks = append(c.Attacks, genAttack(t, i))
	}
	return c
}

func checkC10(c c10Case, _ *kit.Collector) kit.Result {
	res := kit.Result{}
	sc := Scenario{Handlers: c.Handlers, NoFilter: c.NoFilter}
	parties := len(c.Attacks) + 3
	wsteps, _ := convSteps(c.Witness, false)
	// the witness starts together with the attackers and finishes its conversation while they run
	// dial, say hello, wait for the answer (= joined), and only then let the attackers loose
	var pre []Step
	for i, st := range wsteps {
		pre = append(pre, st)
		if st.Op == "write" {
			pre = append(pre, Step{Op: "respond", Rules: []Rule{{Behaviour: "answer"}}}, Step{Op: "wait_frames", N: 1, DeadlineMs: 5000},
				Step{Op: "barrier", Barrier: "start", Parties: len(c.Attacks) + 1})
			pre = append(pre, wsteps[i+1:]...)
			break
		}
	}
	wsteps = pre
	wsteps = append(wsteps, Step{Op: "barrier", Barrier: "attack_over", Parties: parties}, Step{Op: "barrier", Barrier: "probed", Parties: 2}, Step{Op: "close", Mode: "fin"})
	// after the attack the platform can still command the witness (its session is intact and routed correctly)
	sc.Actors = append(sc.Actors, Actor{Name: "platform", Kind: "platform", Steps: []Step{{Op: "barrier", Barrier: "attack_over", Parties: parties},
		{Op: "send", Key: c.Witness.ID.key(), Cmd: 0x8104, Body: []byte{0x77}, TimeoutMs: 1500, CallID: 1}, {Op: "barrier", Barrier: "probed", Parties: 2}}})
	sc.Actors = append(sc.Actors, Actor{Name: "witness", Kind: "terminal", Steps: wsteps})
	for i, a := range c.Attacks {
		steps := []Step{{Op: "barrier", Barrier: "start", Parties: len(c.Attacks) + 1}, {Op: "dial"}}
		if a.Class == "hostile_responses" {
			steps = append(steps, Step{Op: "respond", Rules: a.Commands}, Step{Op: "write", Hex: a.Hello}, Step{Op: "wait_frames", N: 1 + len(a.Commands), DeadlineMs: 1500},
				Step{Op: "pause", PauseUs: 30000})
			var ds []Step
			for k, r := range a.Commands {
				ds = append(ds, Step{Op: "send_when_online", Key: a.Key, Cmd: r.Cmd, Body: append([]byte{0xa7, byte(k)}, 0x01), TimeoutMs: 300, Async: true, CallID: 5000 + 10*i + k, DeadlineMs: 2500, PauseUs: 300})
			}
			ds = append(ds, Step{Op: "join_calls", DeadlineMs: 3000})
			sc.Actors = append(sc.Actors, Actor{Name: fmt.Sprintf("dispatcher%d", i), Kind: "platform", Steps: ds})
		}
		prev := 0
		for _, cut := range append(append([]int{}, a.Cuts...), len(a.Stream)) {
			if cut > prev {
				steps = append(steps, Step{Op: "write", Hex: a.Stream[prev:cut]}, Step{Op: "pause", PauseUs: 300})
				prev = cut
			}
		}
		steps = append(steps, Step{Op: "pause", PauseUs: 5000})
		if a.Close != "none" {
			steps = append(steps, Step{Op: "close", Mode: a.Close})
		}
		steps = append(steps, Step{Op: "barrier", Barrier: "attack_over", Parties: parties})
		sc.Actors = append(sc.Actors, Actor{Name: fmt.Sprintf("attacker%d", i), Kind: "terminal", Steps: steps})
		res.Labels = append(res.Labels, "attack_"+a.Class, "close_"+a.Close)
	}
	late := identity{Digits: "13800130002"}
	sc.Actors = append(sc.Actors, Actor{Name: "latecomer", Kind: "terminal", Steps: []Step{{Op: "barrier", Barrier: "attack_over", Parties: parties},
		{Op: "dial"}, {Op: "write", Hex: frame(late, 0x0002, 5, nil)}, {Op: "wait_frames", N: 1, DeadlineMs: 5000}, {Op: "close", Mode: "fin"}}})
	h := runScenario(sc)
	if !childVerdict(h, &res) {
		return res
	}
	for _, e := range h.Events {
		if e.Kind == "dial_err" {
			if e.Actor == "latecomer" {
				res.Err = fmt.Errorf("SOFT after the attack a new connection could not be opened: %s", e.Err)
			} else {
				res.Err = fmt.Errorf("INFRA %s", e.Err)
			}
			return res
		}
	}
	probeOK := false
	for _, e := range h.Events {
		if e.Kind == "call_result" && e.Call == 1 {
			probeOK = e.Flag && e.Err == ""
			if !probeOK {
				res.Err = fmt.Errorf("SOFT after the attack the established witness session cannot be commanded any more: %q", e.Err)
				return res
			}
		}
	}
	if !probeOK {
		res.Err = fmt.Errorf("SOFT after the attack the command to the witness never returned")
		return res
	}
	if _, err := judgeConversationFiltered("witness", c.Witness, h); err != nil {
		res.Err = kit.Fail("the witness session was disturbed: %v", err)
		if len(err.Error()) > 4 && err.Error()[:4] == "SOFT" {
			res.Err = fmt.Errorf("SOFT witness: %v", err)
		}
		return res
	}
	ok := false
	for _, e := range h.Events {
		if e.Actor == "latecomer" && e.Kind == "recv" {
			if f, why := ref.Validate(e.Data); why == "" && f.ID == 0x8001 && ref.BE16(f.Body) == 5 {
				ok = true
			}
		}
	}
	if !ok {
		res.Err = fmt.Errorf("SOFT after the attack a new connection's heartbeat was not answered")
		return res
	}
	accepted := false
	for _, e := range h.Events {
		if (e.Kind == "cb_read" || e.Kind == "cb_unsupported" || e.Kind == "cb_join") && e.Key != "13800130001" && e.Key != "13800130002" && e.Conn > 1 {
			accepted = true
		}
	}
	if accepted {
		res.Labels = append(res.Labels, "attack_frames_accepted")
	}
	res.Labels = dedup(append(res.Labels, "handlers_"+map[string]string{"": "default", "parse_all": "parse_all"}[c.Handlers]))
	res.NT = accepted || len(c.Attacks) >= 2
	return res
}

func TestC10Socket(t *testing.T) {
	kit.Run(t, kit.Prop[c10Case]{ID: "C10", Part: "TestC10Socket", Gen: genC10, Check: softRetry(checkC10)})
}

// judgeConversationFiltered judges a conversation whose terminal also received platform commands: only the
// reply frames (0x8001/0x8100/0x8800/0x9212) are part of the conversation.
func judgeConversationFiltered(name string, c convTerminal, h History) ([]string, error) {
	var evs []Event
	for _, e := range h.Events {
		if e.Actor == name && e.Kind == "recv" {
			if f, why := ref.Validate(e.Data); why == "" && !replyIDs[f.ID] {
				continue
			}
		}
		evs = append(evs, e)
	}
	return judgeConversation(name, c, History{Events: evs, Exit: h.Exit}, 0)
}
