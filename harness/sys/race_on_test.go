//go:build race

package sys

const raceEnabled = true
