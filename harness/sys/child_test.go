package sys

import (
	"bytes"
	"encoding/json"
	"errors"
	"fmt"
	"io"
	"log/slog"
	"net"
	"os"
	"runtime"
	"strings"
	"sync"
	"sync/atomic"
	"testing"
	"time"

	"verif/harness/ref"

	"github.com/cuteLittleDevil/go-jt808/protocol/jt808"
	"github.com/cuteLittleDevil/go-jt808/protocol/model"
	"github.com/cuteLittleDevil/go-jt808/service"
	"github.com/cuteLittleDevil/go-jt808/shared/consts"
)

func TestMain(m *testing.M) {
	if os.Getenv("VERIF_CHILD") == "1" {
		childMain()
		return
	}
	os.Exit(m.Run())
}

// ---------- recorder ----------

type rec struct {
	mu    sync.Mutex
	seq   atomic.Int64
	start time.Time
	evs   []Event
	kept  []keptMsg
}

type keptMsg struct {
	msg  *service.Message
	snap Event
}

func (r *rec) add(e Event) int64 {
	e.Seq = r.seq.Add(1)
	e.TUs = time.Since(r.start).Microseconds()
	r.mu.Lock()
	r.evs = append(r.evs, e)
	r.mu.Unlock()
	return e.Seq
}

func (r *rec) count(kind string) int {
	r.mu.Lock()
	defer r.mu.Unlock()
	n := 0
	for _, e := range r.evs {
		if e.Kind == kind {
			n++
		}
	}
	return n
}

// ---------- server-side observers ----------

type eventer struct {
	r    *rec
	sc   *Scenario
	conn int
}

// clip keeps histories small when a scenario moves megabyte-sized commands: the first 64 bytes stand for the rest.
func clip(b []byte) []byte {
	if len(b) > 1<<16 {
		b = b[:64]
	}
	return append([]byte(nil), b...)
}

func snapMsg(kind string, conn int, m *service.Message) Event {
	e := Event{Kind: kind, Conn: conn, Cmd: uint16(m.Command)}
	if m.JTMessage != nil {
		e.Body = clip(m.JTMessage.Body)
		if m.JTMessage.Header != nil {
			e.Ser = m.JTMessage.Header.SerialNumber
			e.Key = m.JTMessage.Header.TerminalPhoneNo
		}
	}
	e.Data = append([]byte(nil), m.ExtensionFields.TerminalData...)
	e.Data2 = clip(m.ExtensionFields.PlatformData)
	e.PSeq = m.ExtensionFields.PlatformSeq
	if m.ExtensionFields.Err != nil {
		e.Err = m.ExtensionFields.Err.Error()
	}
	return e
}

// joinSender sends one command to a key (set once the server exists; used by Scenario.OnJoinSend).
var joinSender func(key string)

func (e *eventer) OnJoinEvent(msg *service.Message, key string, err error) {
	if e.sc.JoinHoldUs > 0 {
		time.Sleep(time.Duration(e.sc.JoinHoldUs) * time.Microsecond)
	}
	if err == nil && e.sc.OnJoinSend > 0 && joinSender != nil {
		// a dispatcher that greets every new terminal: the commands reach the connection's writer while its reader
		// is still finishing the join
		n := e.sc.OnJoinSend
		go func() {
			for i := 0; i < n; i++ {
				joinSender(key)
			}
		}()
	}
	if e.sc.Silent {
		return
	}
	ev := snapMsg("cb_join", e.conn, msg)
	if msg != nil && msg.JTMessage != nil && msg.JTMessage.Header != nil {
		e.r.mu.Lock()
		e.r.kept = append(e.r.kept, keptMsg{msg: msg, snap: ev})
		e.r.mu.Unlock()
	}
	ev.Key = key
	if err != nil {
		ev.Err = err.Error()
	}
	e.r.add(ev)
}
func (e *eventer) OnLeaveEvent(key string) {
	if e.sc.OnLeaveSend && joinSender != nil {
		joinSender(key) // a callback that talks to the service again: clean-up commands, bookkeeping queries
	}
	if e.sc.Silent {
		return
	}
	e.r.add(Event{Kind: "cb_leave", Conn: e.conn, Key: key})
}
func (e *eventer) OnNotSupportedEvent(msg *service.Message) {
	if e.sc.Silent {
		return
	}
	ev := snapMsg("cb_unsupported", e.conn, msg)
	e.r.add(ev)
	// a message handed to this callback is a delivered message like any other: what the callback keeps must stay as it is
	e.r.mu.Lock()
	e.r.kept = append(e.r.kept, keptMsg{msg: msg, snap: ev})
	e.r.mu.Unlock()
}
func (e *eventer) OnReadExecutionEvent(msg *service.Message) {
	if e.sc.ReadHoldUs > 0 {
		time.Sleep(time.Duration(e.sc.ReadHoldUs) * time.Microsecond)
	}
	if e.sc.Silent {
		return
	}
	ev := snapMsg("cb_read", e.conn, msg)
	ev.Flag = msg.ExtensionFields.SubcontractComplete
	e.r.add(ev)
	keep := func() {
		e.r.mu.Lock()
		e.r.kept = append(e.r.kept, keptMsg{msg: msg, snap: ev})
		e.r.mu.Unlock()
	}
	if e.sc.Handoff {
		go keep()
	} else {
		keep()
	}
}
func (e *eventer) OnWriteExecutionEvent(msg service.Message) {
	if e.sc.WriteHoldUs > 0 {
		time.Sleep(time.Duration(e.sc.WriteHoldUs) * time.Microsecond)
	}
	if e.sc.Silent {
		return
	}
	ev := snapMsg("cb_write", e.conn, &msg)
	ev.Flag = msg.ExtensionFields.ActiveSend
	ev.Cmd = uint16(msg.ExtensionFields.PlatformCommand)
	e.r.add(ev)
}

// parseAll is the README pattern: a custom handler that embeds the model type and parses every body.
type parseAll struct {
	inner interface {
		Parse(*jt808.JTMessage) error
		Protocol() consts.JT808CommandType
		HasReply() bool
		ReplyBody(*jt808.JTMessage) ([]byte, error)
		ReplyProtocol() consts.JT808CommandType
		String() string
	}
	fresh func() interface {
		Parse(*jt808.JTMessage) error
		String() string
	}
}

func (p *parseAll) Parse(m *jt808.JTMessage) error               { return p.inner.Parse(m) }
func (p *parseAll) Protocol() consts.JT808CommandType            { return p.inner.Protocol() }
func (p *parseAll) HasReply() bool                               { return p.inner.HasReply() }
func (p *parseAll) ReplyBody(m *jt808.JTMessage) ([]byte, error) { return p.inner.ReplyBody(m) }
func (p *parseAll) ReplyProtocol() consts.JT808CommandType       { return p.inner.ReplyProtocol() }
func (p *parseAll) OnWriteExecutionEvent(_ service.Message)      {}
func (p *parseAll) OnReadExecutionEvent(msg *service.Message) {
	// Parsing into the handler's own (per-connection) model object from the read callback races with the
	// writer goroutine's ReplyBody for 0x0102/0x0801/0x1212, which parse into the same object. That sharing is
	// the callback author's choice (example/protocol/camera does it), so the callback
	// only uses the README's main pattern: a fresh model value per message.
	// (Until the writer was made to lag behind the reader - write_hold_us in C06 - this ran in builds without the race
	// detector as well; the first thorough run with a lagging writer then showed a reply computed from a later message:
	// the callback's own race, not the library's. The callback never touches the shared object any more.)
	f := p.fresh()
	if f.Parse(msg.JTMessage) == nil {
		_ = f.String()
	}
}

func parseAllHandlers() map[consts.JT808CommandType]service.Handler {
	type full = interface {
		Parse(*jt808.JTMessage) error
		Protocol() consts.JT808CommandType
		HasReply() bool
		ReplyBody(*jt808.JTMessage) ([]byte, error)
		ReplyProtocol() consts.JT808CommandType
		String() string
	}
	mk := map[consts.JT808CommandType]func() full{
		consts.T0001GeneralRespond:               func() full { return &model.T0x0001{} },
		consts.T0100Register:                     func() full { return &model.T0x0100{} },
		consts.T0102RegisterAuth:                 func() full { return &model.T0x0102{} },
		consts.T0002HeartBeat:                    func() full { return &model.T0x0002{} },
		consts.T0200LocationReport:               func() full { return &model.T0x0200{} },
		consts.T0704LocationBatchUpload:          func() full { return &model.T0x0704{} },
		consts.T0104QueryParameter:               func() full { return &model.T0x0104{} },
		consts.T0805CameraShootImmediately:       func() full { return &model.T0x0805{} },
		consts.T0800MultimediaEventInfoUpload:    func() full { return &model.T0x0800{} },
		consts.T0801MultimediaDataUpload:         func() full { return &model.T0x0801{} },
		consts.T1003UploadAudioVideoAttr:         func() full { return &model.T0x1003{} },
		consts.T1005UploadPassengerFlow:          func() full { return &model.T0x1005{} },
		consts.T1205UploadAudioVideoResourceList: func() full { return &model.T0x1205{} },
		consts.T1206FileUploadCompleteNotice:     func() full { return &model.T0x1206{} },
		consts.T1210AlarmAttachInfoMessage:       func() full { return &model.T0x1210{} },
		consts.T1211FileInfoUpload:               func() full { return &model.T0x1211{} },
		consts.T1212FileUploadComplete:           func() full { return &model.T0x1212{} },
	}
	out := map[consts.JT808CommandType]service.Handler{}
	for k, f := range mk {
		f := f
		out[k] = &parseAll{inner: f(), fresh: func() interface {
			Parse(*jt808.JTMessage) error
			String() string
		} {
			return f()
		}}
	}
	return out
}

// ---------- barriers ----------

type barriers struct {
	mu sync.Mutex
	m  map[string]*barrier
}
type barrier struct {
	need int
	ch   chan struct{}
	n    int
}

func (b *barriers) wait(name string, parties int) {
	b.mu.Lock()
	br := b.m[name]
	if br == nil {
		br = &barrier{need: parties, ch: make(chan struct{})}
		b.m[name] = br
	}
	br.n++
	if br.n >= br.need {
		select {
		case <-br.ch:
		default:
			close(br.ch)
		}
	}
	b.mu.Unlock()
	select {
	case <-br.ch:
	case <-time.After(5 * time.Second): // never hang the child on a mis-counted barrier
	}
}

// ---------- terminal actor ----------

type terminal struct {
	name   string
	r      *rec
	addr   string
	conn   *net.TCPConn
	wmu    sync.Mutex
	mu     sync.Mutex
	cond   *sync.Cond
	frames int
	eof    bool
	rules  []Rule
	held   [][]byte
	serial uint16
	phone  []byte
	v2019  bool
	rdone  chan struct{}
	stall  atomic.Bool // set: the reader stops taking bytes off the socket (a peer that no longer reads)
}

func (t *terminal) write(b []byte) error {
	t.wmu.Lock()
	defer t.wmu.Unlock()
	if t.conn == nil {
		return errors.New("not connected")
	}
	_, err := t.conn.Write(b)
	t.r.add(Event{Actor: t.name, Kind: "sent", Data: b, Err: errStr(err)})
	return err
}

func errStr(err error) string {
	if err == nil {
		return ""
	}
	return err.Error()
}

var naturalResponse = map[uint16]uint16{0x8103: 0x0001, 0x8104: 0x0104, 0x8801: 0x0805, 0x9003: 0x0001, 0x9101: 0x0001, 0x9102: 0x0001,
	0x9205: 0x1205, 0x9206: 0x1206, 0x9207: 0x0001, 0x9208: 0x0001, 0x9201: 0x0001, 0x9202: 0x0001, 0x9105: 0x0001}

var replyIDs = map[uint16]bool{0x8001: true, 0x8100: true, 0x8800: true, 0x9212: true, 0x8003: true}

func responseBody(respID, platformSerial, cmd uint16) []byte {
	s := []byte{byte(platformSerial >> 8), byte(platformSerial)}
	switch respID {
	case 0x0104:
		return append(s, 0)
	case 0x0805:
		return append(s, 0, 0, 0)
	case 0x1205:
		return append(s, 0, 0, 0, 0)
	case 0x1206:
		return append(s, 0)
	default: // 0x0001
		return append(s, byte(cmd>>8), byte(cmd), 0)
	}
}

func (t *terminal) onCommand(f *ref.Frame) {
	t.mu.Lock()
	var rule *Rule
	for i := range t.rules {
		if (t.rules[i].Cmd == 0 || t.rules[i].Cmd == f.ID) && bytes.HasPrefix(f.Body, t.rules[i].Prefix) {
			rule = &t.rules[i]
			break
		}
	}
	t.mu.Unlock()
	if rule == nil || rule.Behaviour == "ignore" {
		return
	}
	respID := rule.RespID
	if respID == 0 {
		respID = naturalResponse[f.ID]
		if respID == 0 {
			respID = 0x0001
		}
	}
	mk := func(serialEcho uint16) []byte {
		t.mu.Lock()
		t.serial++
		s := t.serial
		t.mu.Unlock()
		body := responseBody(respID, serialEcho, f.ID)
		if rule.RespTail != nil {
			body = append([]byte{byte(serialEcho >> 8), byte(serialEcho)}, rule.RespTail...)
		}
		return ref.Spec{ID: respID, Version2019: t.v2019, VersionByte: 1, PhoneBCD: t.phone, Serial: s, Body: body}.Build()
	}
	switch rule.Behaviour {
	case "answer":
		_ = t.write(mk(f.Serial))
	case "answer_glued": // a heartbeat and the response leave the terminal in one write
		resp := mk(f.Serial)
		t.mu.Lock()
		t.serial++
		hs := t.serial
		t.mu.Unlock()
		_ = t.write(append(ref.Spec{ID: 0x0002, Version2019: t.v2019, VersionByte: 1, PhoneBCD: t.phone, Serial: hs}.Build(), resp...))
	case "delay":
		d := time.Duration(rule.DelayMs) * time.Millisecond
		go func() { time.Sleep(d); _ = t.write(mk(f.Serial)) }()
	case "dup":
		_ = t.write(mk(f.Serial))
		_ = t.write(mk(f.Serial))
	case "wrong_serial":
		_ = t.write(mk(f.Serial + 0x4000))
	case "hold":
		b := mk(f.Serial)
		t.mu.Lock()
		t.held = append(t.held, b)
		t.cond.Broadcast()
		t.mu.Unlock()
	case "close":
		t.close("fin")
	}
}

func (t *terminal) reader() {
	defer close(t.rdone)
	buf := make([]byte, 4096)
	var acc []byte
	for {
		for t.stall.Load() {
			time.Sleep(time.Millisecond)
		}
		n, err := t.conn.Read(buf)
		if n > 0 {
			if len(acc) > 1<<20 { // megabyte-sized commands are only drained, not kept
				acc = acc[:0]
			}
			acc = append(acc, buf[:n]...)
			frames, rest := ref.SplitFrames(acc)
			for _, fr := range frames {
				fr = append([]byte(nil), fr...)
				t.r.add(Event{Actor: t.name, Kind: "recv", Data: fr})
				t.mu.Lock()
				t.frames++
				t.cond.Broadcast()
				t.mu.Unlock()
				if f, why := ref.Validate(fr); why == "" && !replyIDs[f.ID] {
					t.onCommand(f)
				}
			}
			acc = append([]byte(nil), rest...)
		}
		if err != nil {
			kind := "read_err"
			if errors.Is(err, io.EOF) {
				kind = "eof"
			}
			t.r.add(Event{Actor: t.name, Kind: kind, Err: err.Error(), Data: acc})
			t.mu.Lock()
			t.eof = true
			t.cond.Broadcast()
			t.mu.Unlock()
			return
		}
	}
}

func (t *terminal) close(mode string) {
	t.wmu.Lock()
	c := t.conn
	t.wmu.Unlock()
	if c == nil {
		return
	}
	if mode == "rst" {
		_ = c.SetLinger(0)
	}
	t.r.add(Event{Actor: t.name, Kind: "close", Note: mode})
	if mode == "half" { // FIN only: the server sees EOF, nothing resets its pending writes
		_ = c.CloseWrite()
		return
	}
	t.stall.Store(false)
	_ = c.Close()
}

func (t *terminal) waitUntil(deadlineMs int, cond func() bool) bool {
	if deadlineMs <= 0 {
		deadlineMs = 5000
	}
	timer := time.AfterFunc(time.Duration(deadlineMs)*time.Millisecond, func() {
		t.mu.Lock()
		t.cond.Broadcast()
		t.mu.Unlock()
	})
	defer timer.Stop()
	end := time.Now().Add(time.Duration(deadlineMs) * time.Millisecond)
	t.mu.Lock()
	defer t.mu.Unlock()
	for !cond() {
		if time.Now().After(end) {
			return false
		}
		t.cond.Wait()
	}
	return true
}

func (t *terminal) run(steps []Step, bars *barriers) {
	for i, s := range steps {
		switch s.Op {
		case "dial":
			var c net.Conn
			var err error
			for try := 0; try < 200; try++ {
				c, err = net.DialTimeout("tcp", t.addr, time.Second)
				if err == nil {
					break
				}
				time.Sleep(5 * time.Millisecond)
			}
			if err != nil {
				t.r.add(Event{Actor: t.name, Kind: "dial_err", Err: err.Error()})
				return
			}
			t.wmu.Lock()
			t.conn = c.(*net.TCPConn)
			_ = t.conn.SetNoDelay(true)
			t.wmu.Unlock()
			t.stall.Store(false)
			t.mu.Lock()
			t.frames, t.eof = 0, false
			t.mu.Unlock()
			t.rdone = make(chan struct{})
			t.r.add(Event{Actor: t.name, Kind: "dial", Note: c.LocalAddr().String()})
			go t.reader()
		case "write":
			_ = t.write(s.Hex)
		case "pause":
			time.Sleep(time.Duration(s.PauseUs) * time.Microsecond)
		case "stall_reads":
			_ = t.conn.SetReadBuffer(4096)
			t.stall.Store(true)
		case "respond":
			t.mu.Lock()
			t.rules = s.Rules
			t.mu.Unlock()
		case "release":
			t.mu.Lock()
			held := t.held
			t.held = nil
			t.mu.Unlock()
			if s.Mode == "reverse" {
				for a, b := 0, len(held)-1; a < b; a, b = a+1, b-1 {
					held[a], held[b] = held[b], held[a]
				}
			}
			for _, h := range held {
				_ = t.write(h)
			}
		case "wait_held":
			n := s.N
			if !t.waitUntil(s.DeadlineMs, func() bool { return len(t.held) >= n || t.eof }) {
				t.r.add(Event{Actor: t.name, Kind: "timeout", Note: fmt.Sprintf("step %d wait_held %d", i, n)})
			}
		case "wait_frames":
			n := s.N
			if !t.waitUntil(s.DeadlineMs, func() bool { return t.frames >= n || t.eof }) {
				t.r.add(Event{Actor: t.name, Kind: "timeout", Note: fmt.Sprintf("step %d wait_frames %d (have %d)", i, n, t.frames)})
			}
		case "wait_eof":
			if !t.waitUntil(s.DeadlineMs, func() bool { return t.eof }) {
				t.r.add(Event{Actor: t.name, Kind: "timeout", Note: fmt.Sprintf("step %d wait_eof", i)})
			}
		case "close":
			t.close(s.Mode)
		case "barrier":
			bars.wait(s.Barrier, s.Parties)
		}
	}
}

// ---------- child main ----------

func childMain() {
	slog.SetDefault(slog.New(slog.NewTextHandler(io.Discard, &slog.HandlerOptions{Level: slog.LevelError + 10})))
	out := os.Stdout
	if f, err := os.OpenFile(os.DevNull, os.O_WRONLY, 0); err == nil {
		os.Stdout = f
	}
	in, err := io.ReadAll(os.Stdin)
	var sc Scenario
	if err == nil {
		err = json.Unmarshal(in, &sc)
	}
	if err == nil && sc.Procs > 0 {
		runtime.GOMAXPROCS(sc.Procs)
	}
	if err != nil {
		fmt.Fprintln(os.Stderr, "HARNESS-ERROR cannot read scenario:", err)
		os.Exit(2)
	}
	if sc.Cold != nil {
		childCold(*sc.Cold, out)
		return
	}
	r := &rec{start: time.Now()}
	// pick a free loopback port, start the real server on it
	var addr string
	for try := 0; ; try++ {
		l, err := net.Listen("tcp", "127.0.0.1:0")
		if err != nil {
			fmt.Fprintln(os.Stderr, "HARNESS-ERROR no loopback port:", err)
			os.Exit(2)
		}
		addr = l.Addr().String()
		l.Close()
		break
	}
	var connCount atomic.Int64
	opts := []service.Option{
		service.WithHostPorts(addr),
		service.WithCustomTerminalEventer(func() service.TerminalEventer {
			return &eventer{r: r, sc: &sc, conn: int(connCount.Add(1))}
		}),
	}
	if sc.NoFilter {
		opts = append(opts, service.WithHasSubcontract(false))
	}
	switch sc.KeyMode {
	case "auth_only":
		prefix := sc.KeyPrefix
		opts = append(opts, service.WithKeyFunc(func(m *service.Message) (string, bool) {
			id := uint16(m.JTMessage.Header.ID)
			return prefix + m.JTMessage.Header.TerminalPhoneNo, id == 0x0100 || id == 0x0102
		}))
	case "strip":
		prefix := sc.KeyPrefix
		opts = append(opts, service.WithKeyFunc(func(m *service.Message) (string, bool) {
			return strings.TrimPrefix(m.JTMessage.Header.TerminalPhoneNo, prefix), true
		}))
	}
	if sc.KeyPrefix != "" && sc.KeyMode == "" {
		prefix := sc.KeyPrefix
		opts = append(opts, service.WithKeyFunc(func(m *service.Message) (string, bool) { return prefix + m.JTMessage.Header.TerminalPhoneNo, true }))
	}
	if sc.Handlers == "parse_all" {
		opts = append(opts, service.WithCustomHandleFunc(parseAllHandlers))
	}
	srv := service.New(opts...)
	joinSender = func(key string) {
		srv.SendActiveMessage(service.NewActiveMessage(key, consts.JT808CommandType(0x8104), nil, 100*time.Millisecond))
	}
	go func() {
		srv.Run() // returns only when it cannot listen: another process took the port between picking it and listening on it
		fmt.Fprintln(os.Stderr, "HARNESS-ERROR the server could not listen on", addr)
		os.Exit(2)
	}()
	// wait until the listener accepts
	up := false
	for try := 0; try < 400; try++ {
		c, err := net.DialTimeout("tcp", addr, 200*time.Millisecond)
		if err == nil {
			c.(*net.TCPConn).SetLinger(0)
			c.Close()
			up = true
			break
		}
		time.Sleep(5 * time.Millisecond)
	}
	if !up {
		fmt.Fprintln(os.Stderr, "HARNESS-ERROR server did not come up on", addr)
		os.Exit(2)
	}
	// the probe connection above is connection #1 of the server: let it finish
	for try := 0; try < 400 && r.count("cb_leave") < 1 && !sc.Silent; try++ {
		time.Sleep(2 * time.Millisecond)
	}
	if sc.Silent {
		time.Sleep(20 * time.Millisecond)
	}
	probe := int(connCount.Load())
	r.add(Event{Kind: "ready", Conn: probe})

	bars := &barriers{m: map[string]*barrier{}}
	var wg sync.WaitGroup
	var terms []*terminal
	for _, a := range sc.Actors {
		a := a
		switch a.Kind {
		case "terminal":
			t := &terminal{name: a.Name, r: r, addr: addr}
			t.cond = sync.NewCond(&t.mu)
			for _, s := range a.Steps { // identity for scripted responses: taken from the first frame it writes
				if s.Op == "write" {
					if fs, _ := ref.SplitFrames(s.Hex); len(fs) > 0 {
						if f, why := ref.Validate(fs[0]); why == "" {
							t.phone, t.v2019 = f.PhoneBCD, f.Version2019
							t.serial = 0x6000
							break
						}
					}
				}
			}
			terms = append(terms, t)
			wg.Add(1)
			go func() { defer wg.Done(); t.run(a.Steps, bars) }()
		case "platform":
			wg.Add(1)
			go func() { defer wg.Done(); runPlatform(a, srv, r, bars) }()
		}
	}
	done := make(chan struct{})
	go func() { wg.Wait(); close(done) }()
	maxMs := sc.MaxMs
	if maxMs <= 0 {
		maxMs = 60000
	}
	select {
	case <-done:
	case <-time.After(time.Duration(maxMs) * time.Millisecond):
		r.add(Event{Kind: "child_timeout", Note: fmt.Sprintf("actors did not finish within %d ms", maxMs)})
	}
	// hang up everything that is still open, then let the server settle: every accepted connection leaves
	for _, t := range terms {
		t.wmu.Lock()
		c := t.conn
		t.wmu.Unlock()
		if c != nil {
			_ = c.SetLinger(0)
			_ = c.Close()
		}
	}
	settle := sc.SettleMs
	if settle <= 0 {
		settle = 3000
	}
	end := time.Now().Add(time.Duration(settle) * time.Millisecond)
	if sc.Silent {
		time.Sleep(150 * time.Millisecond)
		end = time.Now()
	}
	for time.Now().Before(end) {
		if r.count("cb_leave") >= int(connCount.Load()) {
			break
		}
		time.Sleep(time.Millisecond)
	}
	if r.count("cb_leave") < int(connCount.Load()) && !sc.Silent {
		r.add(Event{Kind: "settle_timeout", Note: fmt.Sprintf("%d connections accepted, %d left", connCount.Load(), r.count("cb_leave"))})
	}
	// quiescence: callbacks that were in flight when the last connection left must have a chance to finish
	need := 3 + (sc.WriteHoldUs+sc.ReadHoldUs+sc.JoinHoldUs)/2000 // sleeping callbacks: a longer window (seen once: a 3 ms write callback missed a 24 ms window under load)
	stable, last := 0, int64(-1)
	for i := 0; i < 200 && stable < need; i++ {
		cur := r.seq.Load()
		if cur == last {
			stable++
		} else {
			stable, last = 0, cur
		}
		time.Sleep(8 * time.Millisecond)
	}
	// stability of everything the callbacks kept
	r.mu.Lock()
	kept := append([]keptMsg(nil), r.kept...)
	r.mu.Unlock()
	for _, k := range kept {
		now := snapMsg("cb_read", k.snap.Conn, k.msg)
		diff := ""
		switch {
		case !bytes.Equal(now.Body, k.snap.Body):
			diff = fmt.Sprintf("Body %x -> %x", k.snap.Body, now.Body)
		case !bytes.Equal(now.Data, k.snap.Data):
			diff = fmt.Sprintf("TerminalData %x -> %x", k.snap.Data, now.Data)
		case now.Cmd != k.snap.Cmd || now.Ser != k.snap.Ser || now.Key != k.snap.Key:
			diff = fmt.Sprintf("id/serial/phone %04x/%d/%s -> %04x/%d/%s", k.snap.Cmd, k.snap.Ser, k.snap.Key, now.Cmd, now.Ser, now.Key)
		}
		r.add(Event{Kind: "stable_check", Conn: k.snap.Conn, Data: k.snap.Data, Err: diff})
	}
	r.mu.Lock()
	h := History{Events: r.evs, Exit: "ok"}
	r.mu.Unlock()
	b, _ := json.Marshal(h)
	out.Write(b)
	out.Write([]byte("\n"))
	os.Exit(0)
}

func runPlatform(a Actor, srv *service.GoJT808, r *rec, bars *barriers) {
	var calls sync.WaitGroup
	var reuseMu sync.Mutex
	reused := map[string]*service.ActiveMessage{}
	maxWait := 0
	for _, s := range a.Steps {
		switch s.Op {
		case "pause":
			time.Sleep(time.Duration(s.PauseUs) * time.Microsecond)
		case "barrier":
			bars.wait(s.Barrier, s.Parties)
		case "send", "send_when_online":
			s := s
			call := func() {
				r.add(Event{Actor: a.Name, Kind: "call_start", Call: s.CallID, Key: s.Key, Cmd: s.Cmd})
				t0 := time.Now()
				body := []byte(s.Body)
				if s.BodyFill > 0 {
					body = bytes.Repeat([]byte{0x55}, s.BodyFill)
				}
				am := service.NewActiveMessage(s.Key, consts.JT808CommandType(s.Cmd), body, time.Duration(s.TimeoutMs)*time.Millisecond)
				if s.CallID%2 == 1 || s.TimeoutMs == 0 { // the README builds the value as a struct literal; both ways must behave alike
					am = &service.ActiveMessage{Key: s.Key, Command: consts.JT808CommandType(s.Cmd), Body: body, OverTimeDuration: time.Duration(s.TimeoutMs) * time.Millisecond}
				}
				if s.ReuseMsg {
					rk := fmt.Sprintf("%s/%04x", s.Key, s.Cmd)
					reuseMu.Lock()
					if old, ok := reused[rk]; ok {
						am = old
					} else {
						reused[rk] = am
					}
					reuseMu.Unlock()
				}
				res := srv.SendActiveMessage(am)
				if s.Op == "send_when_online" {
					// an independent dispatcher that keeps trying until the terminal is registered
					for end := t0.Add(time.Duration(s.DeadlineMs) * time.Millisecond); res != nil && errors.Is(res.ExtensionFields.Err, service.ErrNotExistKey) && time.Now().Before(end); {
						time.Sleep(time.Duration(max(s.PauseUs, 50)) * time.Microsecond)
						res = srv.SendActiveMessage(am)
					}
				}
				ev := Event{Actor: a.Name, Kind: "call_result", Call: s.CallID, Key: s.Key, Cmd: s.Cmd, DurUs: time.Since(t0).Microseconds()}
				if res != nil {
					ev.PSeq = res.ExtensionFields.PlatformSeq
					ev.Data = clip(res.ExtensionFields.PlatformData)
					ev.Data2 = append([]byte(nil), res.ExtensionFields.TerminalData...)
					ev.Flag = res.ExtensionFields.Err == nil
					if res.ExtensionFields.Err != nil {
						ev.Err = res.ExtensionFields.Err.Error()
						switch {
						case errors.Is(res.ExtensionFields.Err, service.ErrNotExistKey):
							ev.Note = "not_exist"
						case errors.Is(res.ExtensionFields.Err, service.ErrWriteDataOverTime):
							ev.Note = "overtime"
						case errors.Is(res.ExtensionFields.Err, service.ErrWriteDataFail):
							ev.Note = "write_fail"
						}
					}
				} else {
					ev.Err = "nil message"
				}
				r.add(ev)
			}
			if s.TimeoutMs > maxWait {
				maxWait = s.TimeoutMs
			}
			if s.TimeoutMs == 0 && maxWait < 5000 { // the connection's default timeout applies (3 s in the code, 5 s in the field comment)
				maxWait = 5000
			}
			if s.Async {
				calls.Add(1)
				go func() { defer calls.Done(); call() }()
			} else {
				calls.Add(1)
				done := make(chan struct{})
				go func() { defer calls.Done(); call(); close(done) }()
				select {
				case <-done:
				case <-time.After(time.Duration(s.TimeoutMs+5000*btoi(s.TimeoutMs == 0))*time.Millisecond + 4*time.Second):
					r.add(Event{Actor: a.Name, Kind: "call_stranded", Call: s.CallID, Note: "synchronous call did not return within timeout + 4 s"})
				}
			}
		case "join_calls":
			done := make(chan struct{})
			go func() { calls.Wait(); close(done) }()
			slack := s.DeadlineMs
			if slack <= 0 {
				slack = 4000
			}
			select {
			case <-done:
			case <-time.After(time.Duration(maxWait+slack) * time.Millisecond):
				r.add(Event{Actor: a.Name, Kind: "calls_stranded", Note: fmt.Sprintf("some calls did not return within max timeout %d ms + %d ms", maxWait, slack)})
			}
		}
	}
}

func btoi(b bool) int {
	if b {
		return 1
	}
	return 0
}
