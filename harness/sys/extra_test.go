package sys

import (
	"bytes"
	"fmt"
	"sort"
	"testing"

	"verif/harness/kit"
	"verif/harness/ref"

	"pgregory.net/rapid"
)

// ---------- C04 over a real socket: the reader goroutine's own loop (1023-byte buffer) is on the path ----------

type c04sCase struct {
	V2019   bool      `json:"v2019"`
	Bodies  []kit.Hex `json:"bodies"`
	Cuts    []int     `json:"write_cuts"`
	GapUs   int       `json:"gap_us"`
	Prelude kit.Hex   `json:"earlier_connection_sent"` // bytes an earlier connection sent before it hung up (may end mid-frame)
	// Unsupported[i]: frame i carries message ID 0x0900 (no handler: no reply, the not-supported callback) instead of 0x0200
	Unsupported []bool `json:"frame_has_unsupported_id,omitempty"`
}

func (c c04sCase) msgID(i int) uint16 {
	if i < len(c.Unsupported) && c.Unsupported[i] {
		return 0x0900
	}
	return 0x0200
}

func genC04Socket(t *rapid.T) c04sCase {
	c := c04sCase{V2019: rapid.Bool().Draw(t, "v"), GapUs: rapid.SampledFrom([]int{0, 0, 100, 1000}).Draw(t, "gap")}
	n := rapid.IntRange(2, 10).Draw(t, "frames")
	total := 0
	id := identity{Digits: "13800130003", V2019: c.V2019}
	for i := 0; i < n; i++ {
		l := rapid.SampledFrom([]int{28, 28, 60, 300, 1000, 1023}).Draw(t, "len")
		b := make([]byte, l)
		for k := range b {
			if rapid.IntRange(0, 2).Draw(t, "dense") == 0 {
				b[k] = rapid.SampledFrom([]byte{0x7e, 0x7d, 0x01, 0x02}).Draw(t, "s")
			} else {
				b[k] = byte(k)
			}
		}
		c.Bodies = append(c.Bodies, b)
		c.Unsupported = append(c.Unsupported, i > 0 && rapid.IntRange(0, 3).Draw(t, "unsupported") == 0)
		total += len(frame(id, c.msgID(i), uint16(i), b))
	}
	for i := 0; i < rapid.IntRange(0, 12).Draw(t, "ncuts"); i++ {
		c.Cuts = append(c.Cuts, rapid.IntRange(1, total-1).Draw(t, "cut"))
	}
	sort.Ints(c.Cuts)
	if rapid.IntRange(0, 2).Draw(t, "prelude") == 0 {
		// an earlier connection of another terminal ended in the middle of a frame
		f := frame(identity{Digits: "13800130009"}, 0x0200, 77, make([]byte, 28))
		c.Prelude = append(frame(identity{Digits: "13800130009"}, 0x0002, 76, nil), f[:rapid.IntRange(1, len(f)-1).Draw(t, "prelude_keep")]...)
	}
	return c
}

func checkC04Socket(c c04sCase, _ *kit.Collector) kit.Result {
	res := kit.Result{Labels: []string{"socket_stream"}}
	id := identity{Digits: "13800130003", V2019: c.V2019}
	var stream []byte
	var answered []int // indices of the frames that get a reply
	for i, b := range c.Bodies {
		stream = append(stream, frame(id, c.msgID(i), uint16(i), b)...)
		if c.msgID(i) == 0x0200 {
			answered = append(answered, i)
		}
	}
	if len(answered) < len(c.Bodies) {
		res.Labels = append(res.Labels, "unsupported_ids_in_between")
	}
	steps := []Step{{Op: "dial"}}
	prev := 0
	for _, cut := range append(append([]int{}, c.Cuts...), len(stream)) {
		if cut > prev {
			steps = append(steps, Step{Op: "write", Hex: stream[prev:cut]})
			if c.GapUs > 0 {
				steps = append(steps, Step{Op: "pause", PauseUs: c.GapUs})
			}
			prev = cut
		}
	}
	steps = append(steps, Step{Op: "wait_frames", N: len(answered), DeadlineMs: 8000}, Step{Op: "pause", PauseUs: 20000}, Step{Op: "close", Mode: "fin"})
	actors := []Actor{{Name: "t", Kind: "terminal", Steps: steps}}
	if len(c.Prelude) > 0 {
		res.Labels = append(res.Labels, "after_a_connection_that_ended_mid_frame")
		actors[0].Steps = append([]Step{{Op: "barrier", Barrier: "prelude_done", Parties: 2}}, actors[0].Steps...)
		actors = append(actors, Actor{Name: "earlier", Kind: "terminal", Steps: []Step{{Op: "dial"}, {Op: "write", Hex: c.Prelude}, {Op: "wait_frames", N: 1, DeadlineMs: 3000},
			{Op: "close", Mode: "fin"}, {Op: "pause", PauseUs: 30000}, {Op: "barrier", Barrier: "prelude_done", Parties: 2}}})
	}
	h := runScenario(Scenario{Actors: actors})
	if !childVerdict(h, &res) {
		return res
	}
	frames, _, bad := serverFrames(h, "t")
	if bad != "" {
		res.Err = kit.Fail("%s", bad)
		return res
	}
	for _, e := range h.Events {
		if e.Kind == "timeout" {
			res.Err = fmt.Errorf("SOFT %s (%d replies for %d frames that require one)", e.Note, len(frames), len(answered))
			return res
		}
	}
	if len(frames) != len(answered) {
		res.Err = kit.Fail("%d replies for %d frames that require one (of %d frames sent over %d writes)", len(frames), len(answered), len(c.Bodies), len(c.Cuts)+1)
		return res
	}
	for i, f := range frames {
		if f.ID != 0x8001 || len(f.Body) != 5 || int(ref.BE16(f.Body)) != answered[i] || int(f.Serial) != i {
			res.Err = kit.Fail("reply %d: id %#04x body %x platform serial %d", i, f.ID, f.Body, f.Serial)
			return res
		}
	}
	// the read callbacks saw exactly the frames sent, in order
	k := 0
	for _, e := range h.Events {
		if (e.Kind == "cb_read" || e.Kind == "cb_unsupported") && e.Key == id.key() {
			if k >= len(c.Bodies) {
				res.Err = kit.Fail("more messages delivered than frames sent")
				return res
			}
			if (e.Kind == "cb_unsupported") != (c.msgID(k) == 0x0900) {
				res.Err = kit.Fail("message %d (id %#04x) reached the callback %q", k, c.msgID(k), e.Kind)
				return res
			}
			want := frame(id, c.msgID(k), uint16(k), c.Bodies[k])
			if !bytes.Equal(e.Data, want) || !bytes.Equal(e.Body, c.Bodies[k]) {
				res.Err = kit.Fail("message %d delivered to the read callback differs from the frame sent", k)
				return res
			}
			k++
		}
	}
	if k != len(c.Bodies) {
		res.Err = kit.Fail("%d messages delivered for %d frames", k, len(c.Bodies))
		return res
	}
	res.NT = len(c.Cuts) >= 1
	return res
}

func TestC04Socket(t *testing.T) {
	kit.Run(t, kit.Prop[c04sCase]{ID: "C04", Part: "TestC04Socket", Gen: genC04Socket, Check: softRetry(checkC04Socket)})
}

// ---------- C06 on a connection that lives longer than any per-connection timer a change might arm once ----------

// TestC06LongLived: two terminals (2013 and 2019 layout) stay connected for 11 s and send a heartbeat at 0 s, 5.5 s
// and 11 s; each must be answered with the next platform serial, and a platform command at the end still reaches them.
func TestC06LongLived(t *testing.T) {
	kit.Enum(t, "C06", "TestC06LongLived", "TestC06", func(col *kit.Collector) (any, error) {
		sc := Scenario{MaxMs: 40000}
		ids := []identity{{Digits: "13800130021"}, {Digits: "13800130022", V2019: true}}
		for i, id := range ids {
			sc.Actors = append(sc.Actors, Actor{Name: fmt.Sprintf("t%d", i), Kind: "terminal", Steps: []Step{{Op: "dial"}, {Op: "respond", Rules: []Rule{{Behaviour: "answer"}}},
				{Op: "write", Hex: frame(id, 0x0002, 1, nil)}, {Op: "wait_frames", N: 1, DeadlineMs: 5000}, {Op: "pause", PauseUs: 5_500_000},
				{Op: "write", Hex: frame(id, 0x0002, 2, nil)}, {Op: "wait_frames", N: 2, DeadlineMs: 3000}, {Op: "pause", PauseUs: 5_500_000},
				{Op: "write", Hex: frame(id, 0x0002, 3, nil)}, {Op: "wait_frames", N: 3, DeadlineMs: 3000}, {Op: "barrier", Barrier: "old", Parties: 3},
				{Op: "barrier", Barrier: "probed", Parties: 3}, {Op: "close", Mode: "fin"}}})
		}
		sc.Actors = append(sc.Actors, Actor{Name: "platform", Kind: "platform", Steps: []Step{{Op: "pause", PauseUs: 10_900_000}, {Op: "barrier", Barrier: "old", Parties: 3}, // (a barrier waits 5 s at most)
			{Op: "send", Key: ids[0].key(), Cmd: 0x8104, Body: []byte{1}, TimeoutMs: 1500, CallID: 1}, {Op: "send", Key: ids[1].key(), Cmd: 0x8104, Body: []byte{2}, TimeoutMs: 1500, CallID: 2},
			{Op: "barrier", Barrier: "probed", Parties: 3}}})
		h := runScenario(sc)
		res := kit.Result{NT: true, Labels: []string{"connection_older_than_10s"}}
		if !childVerdict(h, &res) {
			return "long-lived connection scenario", res.Err
		}
		for i := range ids {
			frames, _, bad := serverFrames(h, fmt.Sprintf("t%d", i))
			if bad != "" {
				return nil, kit.Fail("%s", bad)
			}
			var seen []string
			for k, f := range frames {
				seen = append(seen, fmt.Sprintf("%04x/%d", f.ID, f.Serial))
				if int(f.Serial) != k {
					return map[string]any{"frames": seen}, kit.Fail("terminal %d: frame %d carries platform serial %d", i, k, f.Serial)
				}
			}
			if fmt.Sprint(seen) != "[8001/0 8001/1 8001/2 8104/3]" {
				return map[string]any{"frames": seen}, kit.Fail("terminal %d stayed connected for 11 s (heartbeats at 0 s, 5.5 s, 11 s, then a command): it received %v, want three general responses and the command", i, seen)
			}
		}
		for _, e := range h.Events {
			if e.Kind == "call_result" && (e.Err != "" || !e.Flag) {
				return nil, kit.Fail("the command for a terminal connected for 11 s returned %q", e.Err)
			}
		}
		col.RecordHash(1, res, func() any { return map[string]any{"terminals": 2, "seconds": 11} })
		col.RecordHash(2, kit.Result{NT: true, Labels: []string{"connection_older_than_10s"}}, nil)
		return nil, nil
	})
}

// ---------- C06 serial wrap: more than 65 536 replies on one connection (thorough) ----------

func TestC06Wrap(t *testing.T) {
	kit.Enum(t, "C06", "TestC06Wrap", "TestC06", func(col *kit.Collector) (any, error) {
		id := identity{Digits: "13800130004"}
		const n = 65600
		steps := []Step{{Op: "dial"}}
		var chunk []byte
		sent := 0
		for i := 0; i < n; i++ {
			chunk = append(chunk, frame(id, 0x0002, uint16(i), nil)...)
			sent++
			if len(chunk) > 900 || i == n-1 {
				steps = append(steps, Step{Op: "write", Hex: chunk})
				chunk = nil
				if sent%2000 < 60 {
					steps = append(steps, Step{Op: "wait_frames", N: sent, DeadlineMs: 20000})
				}
			}
		}
		steps = append(steps, Step{Op: "wait_frames", N: n, DeadlineMs: 30000}, Step{Op: "close", Mode: "fin"})
		h := runScenario(Scenario{Actors: []Actor{{Name: "t", Kind: "terminal", Steps: steps}}, SettleMs: 5000})
		res := kit.Result{Labels: []string{"serial_wrap"}, NT: true}
		if !childVerdict(h, &res) {
			return "wrap scenario", res.Err
		}
		frames, _, bad := serverFrames(h, "t")
		if bad != "" {
			return "wrap scenario", kit.Fail("%s", bad)
		}
		if len(frames) != n {
			col.Note(fmt.Sprintf("wrap scenario inconclusive: %d of %d replies arrived in time", len(frames), n))
			col.RecordHash(1, kit.Result{Labels: []string{"wrap_inconclusive"}, NT: true}, nil)
			col.RecordHash(2, kit.Result{Labels: []string{"wrap_inconclusive"}, NT: true}, nil)
			return nil, nil
		}
		for i, f := range frames {
			if f.ID != 0x8001 || int(f.Serial) != i&0xffff || int(ref.BE16(f.Body)) != i&0xffff {
				return map[string]any{"reply_index": i}, kit.Fail("reply %d carries platform serial %d and echoes %d; want %d for both (wrap after 65535)", i, f.Serial, ref.BE16(f.Body), i&0xffff)
			}
		}
		col.RecordHash(1, res, func() any { return map[string]any{"heartbeats": n, "last_platform_serial": frames[n-1].Serial} })
		col.RecordHash(2, kit.Result{Labels: []string{"wrap_reached"}, NT: true}, nil)
		col.SetExhaustive(false, n)
		return nil, nil
	})
}

// ---------- C14 with the real clock (thorough): validates that the virtual clock is a faithful stand-in ----------

func TestC14RealClock(t *testing.T) {
	kit.Enum(t, "C14", "TestC14RealClock", "TestC14", func(col *kit.Collector) (any, error) {
		const conns = 24
		sc := Scenario{SettleMs: 5000, MaxMs: 100000}
		type plan struct {
			id      identity
			n       int
			missing []uint16
			first   uint16
			expire  bool
		}
		var plans []plan
		for k := 0; k < conns; k++ {
			p := plan{id: identity{Digits: fmt.Sprintf("1360000%04d", 3000+k), V2019: k%2 == 1}, n: 3 + k%6, first: uint16(500 + k), expire: k == conns-1}
			for no := 2; no <= p.n; no++ {
				if (k>>uint(no%4))&1 == 1 || no == p.n {
					p.missing = append(p.missing, uint16(no))
				}
			}
			plans = append(plans, p)
			body := func(no int) []byte { return []byte{byte(k), byte(no), 0x7e, 0x55} }
			steps := []Step{{Op: "dial"}, {Op: "write", Hex: frame(p.id, 0x0002, 1, nil)}, {Op: "wait_frames", N: 1, DeadlineMs: 5000}}
			miss := map[uint16]bool{}
			for _, m := range p.missing {
				miss[m] = true
			}
			for no := 1; no <= p.n; no++ {
				if !miss[uint16(no)] {
					ser := uint16(700 + no)
					if no == 1 {
						ser = p.first
					}
					steps = append(steps, Step{Op: "write", Hex: fragFrame(p.id, 0x0200, ser, uint16(p.n), uint16(no), body(no))})
				}
			}
			if p.expire {
				steps = append(steps, Step{Op: "pause", PauseUs: 61_500_000}, Step{Op: "write", Hex: frame(p.id, 0x0002, 2, nil)}, Step{Op: "wait_frames", N: 2, DeadlineMs: 5000})
				for _, m := range p.missing {
					steps = append(steps, Step{Op: "write", Hex: fragFrame(p.id, 0x0200, 800+m, uint16(p.n), m, body(int(m)))})
				}
				steps = append(steps, Step{Op: "write", Hex: frame(p.id, 0x0002, sentinelSerial, nil)}, Step{Op: "wait_frames", N: 3, DeadlineMs: 5000})
			} else {
				steps = append(steps, Step{Op: "pause", PauseUs: 2_000_000}, Step{Op: "write", Hex: frame(p.id, 0x0002, 2, nil)}, Step{Op: "wait_frames", N: 2, DeadlineMs: 5000},
					Step{Op: "pause", PauseUs: 3_600_000}, Step{Op: "write", Hex: frame(p.id, 0x0002, 3, nil)}, Step{Op: "wait_frames", N: 4, DeadlineMs: 5000})
				for _, m := range p.missing {
					steps = append(steps, Step{Op: "write", Hex: fragFrame(p.id, 0x0200, 800+m, uint16(p.n), m, body(int(m)))})
				}
				steps = append(steps, Step{Op: "write", Hex: frame(p.id, 0x0002, sentinelSerial, nil)}, Step{Op: "wait_frames", N: 6, DeadlineMs: 5000})
			}
			steps = append(steps, Step{Op: "close", Mode: "fin"})
			sc.Actors = append(sc.Actors, Actor{Name: fmt.Sprintf("t%d", k), Kind: "terminal", Steps: steps})
		}
		h := runScenario(sc)
		res := kit.Result{NT: true}
		if !childVerdict(h, &res) {
			return "real clock scenario", res.Err
		}
		for k, p := range plans {
			frames, _, bad := serverFrames(h, fmt.Sprintf("t%d", k))
			if bad != "" {
				return map[string]any{"conn": k}, kit.Fail("%s", bad)
			}
			var ids []string
			for _, f := range frames {
				ids = append(ids, fmt.Sprintf("%04x", f.ID))
			}
			if p.expire {
				// heartbeat reply, heartbeat reply (no 0x8003: the transfer is older than 60 s), sentinel reply; never a 0x0200 completion
				if fmt.Sprint(ids) != "[8001 8001 8001]" {
					return map[string]any{"conn": k, "frames": ids}, kit.Fail("transfer older than 60 s: server sent %v, want only the three heartbeat replies (no re-request, no delivery)", ids)
				}
				col.RecordHash(uint64(1000+k), kit.Result{Labels: []string{"real_clock_expiry"}, NT: true}, func() any { return map[string]any{"conn": k, "frames": ids} })
				continue
			}
			// hb reply; hb reply at 2 s (nothing yet); at 5.6 s: hb reply + 0x8003 (either order within that read); completion reply; sentinel reply
			if len(frames) != 6 {
				col.Note(fmt.Sprintf("real-clock connection %d inconclusive: frames %v", k, ids))
				continue
			}
			var rr *ref.Frame
			for _, f := range frames[2:4] {
				if f.ID == 0x8003 {
					rr = f
				}
			}
			if rr == nil || frames[0].ID != 0x8001 || frames[1].ID != 0x8001 {
				return map[string]any{"conn": k, "frames": ids}, kit.Fail("connection %d: frames %v; want a 0x8003 only after 5 s of silence", k, ids)
			}
			var want []byte
			want = append(want, byte(p.first>>8), byte(p.first), byte(len(p.missing)))
			for _, m := range p.missing {
				want = append(want, byte(m>>8), byte(m))
			}
			if !bytes.Equal(rr.Body, want) || !bytes.Equal(rr.PhoneBCD, p.id.bcd()) || rr.Version2019 != p.id.V2019 {
				return map[string]any{"conn": k}, kit.Fail("connection %d: 0x8003 body %x phone %x, want %x for phone %x", k, rr.Body, rr.PhoneBCD, want, p.id.bcd())
			}
			for i, f := range frames {
				if int(f.Serial) != i {
					return map[string]any{"conn": k}, kit.Fail("connection %d: frame %d carries platform serial %d", k, i, f.Serial)
				}
			}
			// the completion reply and the sentinel's reply may swap when both frames share a read (see DESIGN.md C06)
			done := false
			for _, f := range frames[4:6] {
				if f.ID == 0x8001 && len(f.Body) == 5 && ref.BE16(f.Body[2:]) == 0x0200 {
					done = true
				}
			}
			if !done {
				return map[string]any{"conn": k, "frames": ids}, kit.Fail("connection %d: after resupplying the named packets the completed 0x0200 was not answered", k)
			}
			col.RecordHash(uint64(k), kit.Result{Labels: []string{"real_clock_rerequest"}, NT: true}, func() any { return map[string]any{"conn": k, "missing": p.missing} })
		}
		return nil, nil
	})
}

// ---------- C14 over a socket with several stalled transfers on one connection (both tiers, ~6 s) ----------
// The re-requests travel reader -> reissuePackChan (3 slots) -> writer; with more stalled message IDs than slots
// every one of them must still reach the terminal, numbered like any other frame.

func TestC14Socket(t *testing.T) {
	kit.Enum(t, "C14", "TestC14Socket", "TestC14", func(col *kit.Collector) (any, error) {
		id := identity{Digits: "13600005000"}
		ids := []uint16{0x0200, 0x0704, 0x0801, 0x0800, 0x1205, 0x0104, 0x0805}
		type tr struct {
			first   uint16
			n       int
			missing []uint16
		}
		var trs []tr
		steps := []Step{{Op: "dial"}, {Op: "write", Hex: frame(id, 0x0002, 1, nil)}, {Op: "wait_frames", N: 1, DeadlineMs: 5000}}
		for k, m := range ids {
			x := tr{first: uint16(900 + 10*k), n: 3 + k%3}
			for no := 1; no <= x.n; no++ {
				if no != 1 && (no+k)%2 == 0 {
					x.missing = append(x.missing, uint16(no))
					continue
				}
				ser := x.first
				if no != 1 {
					ser = x.first + uint16(no)
				}
				steps = append(steps, Step{Op: "write", Hex: fragFrame(id, m, ser, uint16(x.n), uint16(no), []byte{byte(k), byte(no), 0x7d})})
			}
			if len(x.missing) == 0 {
				x.missing = nil
			}
			trs = append(trs, x)
		}
		stalled := 0
		for _, x := range trs {
			if len(x.missing) > 0 {
				stalled++
			}
		}
		// enough heartbeats first that the re-requests are written with the platform serials 121..127: 0x7d and 0x7e among them
		before := 1 + len(trs) - stalled // frames the server has written so far: the hello reply and one reply per completed transfer
		var beats []byte
		for b := 0; before < 120; b++ {
			beats = append(beats, frame(id, 0x0002, uint16(3000+b), nil)...)
			before++
		}
		steps = append(steps, Step{Op: "write", Hex: beats}, Step{Op: "wait_frames", N: before, DeadlineMs: 5000})
		steps = append(steps, Step{Op: "pause", PauseUs: 5_400_000}, Step{Op: "write", Hex: frame(id, 0x0002, 2, nil)},
			Step{Op: "wait_frames", N: before + 1 + stalled, DeadlineMs: 4000}, Step{Op: "write", Hex: frame(id, 0x0002, sentinelSerial, nil)},
			Step{Op: "wait_frames", N: before + 2 + stalled, DeadlineMs: 4000}, Step{Op: "close", Mode: "fin"})
		// before that, twelve other terminals abandon a transfer (packet 1 of 3, then they hang up); and next to the main
		// terminal four fresh ones only send heartbeats around the same 5.4 s of silence: nothing of the abandoned
		// transfers may reach a later connection (no re-request for a transfer that connection never started)
		const abandoners, bystanders = 12, 4
		parties := abandoners + 1 + bystanders
		steps = append([]Step{{Op: "barrier", Barrier: "abandoned", Parties: parties}}, steps...)
		actors := []Actor{{Name: "t", Kind: "terminal", Steps: steps}}
		for a := 0; a < abandoners; a++ {
			aid := identity{Digits: fmt.Sprintf("1360000%04d", 5100+a), V2019: a%2 == 1}
			actors = append(actors, Actor{Name: fmt.Sprintf("abandoner%d", a), Kind: "terminal", Steps: []Step{{Op: "dial"}, {Op: "write", Hex: frame(aid, 0x0002, 1, nil)},
				{Op: "wait_frames", N: 1, DeadlineMs: 5000}, {Op: "write", Hex: fragFrame(aid, 0x0801, uint16(700+a), 3, 1, []byte{0xab, byte(a)})},
				{Op: "pause", PauseUs: 20000}, {Op: "close", Mode: "fin"}, {Op: "pause", PauseUs: 30000}, {Op: "barrier", Barrier: "abandoned", Parties: parties}}})
		}
		for b := 0; b < bystanders; b++ {
			bid := identity{Digits: fmt.Sprintf("1360000%04d", 5200+b), V2019: b%2 == 0}
			actors = append(actors, Actor{Name: fmt.Sprintf("bystander%d", b), Kind: "terminal", Steps: []Step{{Op: "barrier", Barrier: "abandoned", Parties: parties}, {Op: "dial"},
				{Op: "write", Hex: frame(bid, 0x0002, 1, nil)}, {Op: "wait_frames", N: 1, DeadlineMs: 5000}, {Op: "pause", PauseUs: 5_400_000},
				{Op: "write", Hex: frame(bid, 0x0002, 2, nil)}, {Op: "wait_frames", N: 2, DeadlineMs: 4000}, {Op: "pause", PauseUs: 300000}, {Op: "close", Mode: "fin"}}})
		}
		// the same terminal script against a server started with WithHasSubcontract(false) (every packet is handed to the
		// handlers and answered): the re-requests must be the same seven frames; runs concurrently with the main scenario
		type nfResult struct {
			got map[uint16][]uint16
			bad string
		}
		nfCh := make(chan nfResult, 1)
		go func() {
			var st []Step
			for _, x := range steps {
				if x.Op == "barrier" {
					continue
				}
				if x.Op == "close" {
					st = append(st, Step{Op: "pause", PauseUs: 400000})
				}
				st = append(st, x)
			}
			hn := runScenario(Scenario{NoFilter: true, Actors: []Actor{{Name: "t", Kind: "terminal", Steps: st}}})
			out := nfResult{got: map[uint16][]uint16{}}
			if hn.Exit != "ok" {
				out.bad = "child exit " + hn.Exit + " " + hn.Stderr
			}
			fr, _, bad := serverFrames(hn, "t")
			if bad != "" {
				out.bad = bad
			}
			for _, f := range fr {
				if f.ID == 0x8003 && len(f.Body) >= 3 && len(f.Body) == 3+2*int(f.Body[2]) {
					var l []uint16
					for k := 0; k < int(f.Body[2]); k++ {
						l = append(l, ref.BE16(f.Body[3+2*k:]))
					}
					if _, dup := out.got[ref.BE16(f.Body)]; dup {
						out.bad = fmt.Sprintf("two re-requests for first-packet serial %d", ref.BE16(f.Body))
					}
					out.got[ref.BE16(f.Body)] = l
				}
			}
			nfCh <- out
		}()
		h := runScenario(Scenario{Actors: actors})
		res := kit.Result{NT: true, Labels: []string{"socket_many_stalled_transfers"}}
		if !childVerdict(h, &res) {
			return "C14 socket scenario", res.Err
		}
		frames, _, bad := serverFrames(h, "t")
		if bad != "" {
			return "C14 socket scenario", kit.Fail("%s", bad)
		}
		got := map[uint16][]uint16{}
		var idsSeen []string
		for i, f := range frames {
			idsSeen = append(idsSeen, fmt.Sprintf("%04x", f.ID))
			if int(f.Serial) != i {
				return map[string]any{"frames": idsSeen}, kit.Fail("frame %d (id %#04x) carries platform serial %d", i, f.ID, f.Serial)
			}
			if f.ID == 0x8003 {
				b := f.Body
				if len(b) < 3 || len(b) != 3+2*int(b[2]) {
					return nil, kit.Fail("malformed 0x8003 body %x", b)
				}
				var l []uint16
				for k := 0; k < int(b[2]); k++ {
					l = append(l, ref.BE16(b[3+2*k:]))
				}
				if _, dup := got[ref.BE16(b)]; dup {
					return map[string]any{"frames": idsSeen}, kit.Fail("two re-requests for first-packet serial %d", ref.BE16(b))
				}
				got[ref.BE16(b)] = l
			}
		}
		for _, x := range trs {
			if len(x.missing) == 0 {
				continue
			}
			if fmt.Sprint(got[x.first]) != fmt.Sprint(x.missing) {
				return map[string]any{"frames": idsSeen, "got": fmt.Sprint(got)}, kit.Fail("%d transfers are stalled on one connection; after 5.4 s of silence and a heartbeat the re-request for first-packet serial %d is %v, want %v (server frames: %v)", stalled, x.first, got[x.first], x.missing, idsSeen)
			}
		}
		if len(got) != stalled {
			return map[string]any{"frames": idsSeen}, kit.Fail("%d re-requests for %d stalled transfers", len(got), stalled)
		}
		nf := <-nfCh
		if nf.bad != "" {
			return "C14 socket scenario without the sub-package filter", kit.Fail("%s", nf.bad)
		}
		for _, x := range trs {
			if len(x.missing) > 0 && fmt.Sprint(nf.got[x.first]) != fmt.Sprint(x.missing) {
				return map[string]any{"got": fmt.Sprint(nf.got)}, kit.Fail("server without the sub-package filter: after 5.4 s of silence the re-request for first-packet serial %d is %v, want %v (all re-requests seen: %v)", x.first, nf.got[x.first], x.missing, nf.got)
			}
		}
		if len(nf.got) != stalled {
			return map[string]any{"got": fmt.Sprint(nf.got)}, kit.Fail("server without the sub-package filter: %d re-requests for %d stalled transfers", len(nf.got), stalled)
		}
		for b := 0; b < bystanders; b++ {
			bf, _, bad := serverFrames(h, fmt.Sprintf("bystander%d", b))
			if bad != "" {
				return "C14 socket scenario", kit.Fail("%s", bad)
			}
			var seen []string
			for _, f := range bf {
				seen = append(seen, fmt.Sprintf("%04x", f.ID))
			}
			if fmt.Sprint(seen) != "[8001 8001]" {
				return map[string]any{"bystander": b, "frames": seen}, kit.Fail("a terminal that only sent two heartbeats (5.4 s apart, after other connections had abandoned transfers) received %v, want two general responses", seen)
			}
		}
		col.RecordHash(1, res, func() any { return map[string]any{"stalled_transfers": stalled, "frames": idsSeen} })
		col.RecordHash(2, kit.Result{NT: true, Labels: []string{"socket_many_stalled_transfers"}}, nil)
		return nil, nil
	})
}
