package sys

import (
	"strings"

	"verif/harness/kit"
)

// softRetry implements the hard/soft evidence rule: a missed deadline ("SOFT ...") is re-run up to three times
// and reported only if it fails at least twice; infrastructure trouble ("INFRA ...") is never a violation.
func softRetry[C any](check func(C, *kit.Collector) kit.Result) func(C, *kit.Collector) kit.Result {
	return func(c C, col *kit.Collector) kit.Result {
		res := check(c, col)
		if res.Err == nil {
			return res
		}
		msg := res.Err.Error()
		if strings.HasPrefix(msg, "INFRA") {
			return kit.Result{Excluded: "infrastructure"}
		}
		if !strings.HasPrefix(msg, "SOFT") {
			return res
		}
		fails := 1
		for i := 0; i < 2; i++ {
			r2 := check(c, col)
			if r2.Err != nil && strings.HasPrefix(r2.Err.Error(), "SOFT") {
				fails++
			} else if r2.Err != nil && !strings.HasPrefix(r2.Err.Error(), "INFRA") {
				return r2
			} else if r2.Err == nil && fails < 2 {
				res = r2
			}
		}
		if fails >= 2 {
			res.Err = kit.Fail("%s (failed %d of 3 runs)", strings.TrimPrefix(msg, "SOFT "), fails)
			return res
		}
		res.Err = nil
		res.Labels = append(res.Labels, "soft_inconclusive_once")
		return res
	}
}
