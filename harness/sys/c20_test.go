package sys

import (
	"bytes"
	"encoding/hex"
	"fmt"
	"testing"

	"verif/harness/kit"

	"github.com/cuteLittleDevil/go-jt808/shared/consts"
	simterm "github.com/cuteLittleDevil/go-jt808/terminal"
	"pgregory.net/rapid"
)

// C20 (reply part): the platform reply the simulator predicts for a frame equals the reply the real server sends.

type c20LiveCase struct {
	Version   int      `json:"version"`
	Phone     string   `json:"phone"`
	Cmds      []uint16 `json:"commands"`
	Pipeline  bool     `json:"pipelined"`
	Predictor int      `json:"predictor_version"` // version of the simulator instance that predicts the replies (0 = the generating one)
	// Custom[i] non-nil: frame i carries this custom body (possibly one its own message type cannot parse) instead of the default one
	Custom []kit.Hex `json:"custom_bodies,omitempty"`
}

var liveCmds = []uint16{0x0002, 0x0100, 0x0102, 0x0200, 0x0704, 0x1003, 0x1210, 0x1211, 0x1212}

func genC20Live(t *rapid.T) c20LiveCase {
	c := c20LiveCase{Version: rapid.IntRange(1, 3).Draw(t, "version"), Pipeline: rapid.Bool().Draw(t, "pipeline")}
	maxDigits := 12
	if c.Version == 3 {
		maxDigits = 20
	}
	if rapid.Bool().Draw(t, "short") {
		c.Phone = rapid.StringMatching("[1-9][0-9]{0,6}").Draw(t, "phone_short")
	} else {
		c.Phone = rapid.StringMatching(fmt.Sprintf("[1-9][0-9]{%d}", maxDigits-1)).Draw(t, "phone")
	}
	n := rapid.IntRange(1, 10).Draw(t, "n")
	for i := 0; i < n; i++ {
		c.Cmds = append(c.Cmds, rapid.SampledFrom(liveCmds).Draw(t, "cmd"))
		var custom kit.Hex
		if rapid.IntRange(0, 3).Draw(t, "custom") == 0 {
			custom = kit.Hex(rapid.SliceOfN(rapid.Byte(), 0, 40).Draw(t, "custom_body"))
			if custom == nil {
				custom = kit.Hex{}
			}
		}
		c.Custom = append(c.Custom, custom)
	}
	c.Predictor = rapid.SampledFrom([]int{0, 0, 1, 2, 3}).Draw(t, "predictor")
	return c
}

func checkC20Live(c c20LiveCase, _ *kit.Collector) kit.Result {
	res := kit.Result{Labels: []string{fmt.Sprintf("version_%d", c.Version)}}
	term := simterm.New(simterm.WithHeader(consts.ProtocolVersionType(c.Version), c.Phone))
	// the prediction is a function of the frame: any simulator instance (any version, any phone) must predict the same
	pred := term
	if c.Predictor != 0 {
		pred = simterm.New(simterm.WithHeader(consts.ProtocolVersionType(c.Predictor), "13912345678"))
		res.Labels = append(res.Labels, fmt.Sprintf("predictor_version_%d", c.Predictor))
	}
	var frames, want [][]byte
	nextPlatformSerial := 0
	for i, cmd := range c.Cmds {
		f := term.CreateDefaultCommandData(consts.JT808CommandType(cmd))
		if i < len(c.Custom) && c.Custom[i] != nil {
			f = term.CreateCommandData(consts.JT808CommandType(cmd), append([]byte(nil), c.Custom[i]...))
			res.Labels = append(res.Labels, "custom_body")
		}
		frames = append(frames, f)
		w := pred.ExpectedReply(uint16(nextPlatformSerial), hex.EncodeToString(f))
		if w != nil {
			nextPlatformSerial++
		}
		want = append(want, w)
		res.Labels = append(res.Labels, fmt.Sprintf("cmd_%04x", cmd))
	}
	// a frame for which no reply is predicted must get none: the server's frames are compared with the non-empty predictions in order
	answered := 0
	var wantFrames [][]byte
	var wantIdx []int
	for i, w := range want {
		if w != nil {
			answered++
			wantFrames = append(wantFrames, w)
			wantIdx = append(wantIdx, i)
		}
	}
	if answered < len(want) {
		res.Labels = append(res.Labels, "no_reply_predicted")
	}
	steps := []Step{{Op: "dial"}}
	if c.Pipeline {
		var all []byte
		for _, f := range frames {
			all = append(all, f...)
		}
		for len(all) > 0 {
			n := min(len(all), 1000)
			steps = append(steps, Step{Op: "write", Hex: all[:n]})
			all = all[n:]
		}
		steps = append(steps, Step{Op: "wait_frames", N: answered, DeadlineMs: 6000})
		res.Labels = append(res.Labels, "pipelined")
	} else {
		n := 0
		for i, f := range frames {
			if want[i] != nil {
				n++
			}
			steps = append(steps, Step{Op: "write", Hex: f}, Step{Op: "wait_frames", N: n, DeadlineMs: 5000})
		}
	}
	steps = append(steps, Step{Op: "pause", PauseUs: 20000}, Step{Op: "close", Mode: "fin"})
	h := runScenario(Scenario{Actors: []Actor{{Name: "sim", Kind: "terminal", Steps: steps}}})
	if !childVerdict(h, &res) {
		return res
	}
	var got [][]byte
	for _, e := range h.Events {
		if e.Actor == "sim" && e.Kind == "recv" {
			got = append(got, e.Data)
		}
		if e.Actor == "sim" && e.Kind == "timeout" {
			res.Err = fmt.Errorf("SOFT %s", e.Note)
			return res
		}
		if e.Kind == "dial_err" {
			res.Err = fmt.Errorf("INFRA %s", e.Err)
			return res
		}
	}
	if len(got) != len(wantFrames) {
		res.Err = kit.Fail("server sent %d frames, the simulator predicts %d replies for these %d frames", len(got), len(wantFrames), len(want))
		return res
	}
	for k := range wantFrames {
		if i := wantIdx[k]; !bytes.Equal(got[k], wantFrames[k]) {
			res.Err = kit.Fail("message %d (cmd %#04x, version %d, phone %q): server replied %x, ExpectedReply = %x", i, c.Cmds[i], c.Version, c.Phone, got[k], wantFrames[k])
			return res
		}
	}
	res.Labels = dedup(res.Labels)
	res.NT = len(c.Cmds) >= 2
	return res
}

func TestC20Live(t *testing.T) {
	kit.Run(t, kit.Prop[c20LiveCase]{ID: "C20", Part: "TestC20Live", Gen: genC20Live, Check: softRetry(checkC20Live)})
}
