package sys

import (
	"fmt"
	"testing"

	"verif/harness/kit"
	"verif/harness/ref"

	"pgregory.net/rapid"
)

// A terminal that stops reading: a command larger than the socket buffers blocks its connection's writer inside
// conn.Write, three more commands fill its queue and the next one blocks the session manager itself. The terminal
// then disconnects with a FIN only (nothing resets the pending write). Two properties meet here:
//
//	C13  the disconnect releases every caller (the commands for the stalled terminal and those queued behind them)
//	     and the server goes on serving;
//	C11  terminals that said hello while the manager was stalled - for 0.2 s or for longer than any internal
//	     patience (3.4 s) - are registered exactly once, announced once, answered and routable afterwards.

type stallCase struct {
	StallMs  int    `json:"stall_ms"` // how long the terminal stays connected without reading after the commands were issued
	Extra    int    `json:"commands_behind_the_big_one"`
	Joiners  int    `json:"terminals_joining_during_the_stall"`
	V2019    bool   `json:"v2019"`
	End      string `json:"end"` // half | fin | rst
	BigBytes int    `json:"big_command_bytes"`
	Rejoin   bool   `json:"stalled_terminal_reconnects_with_its_key"`
}

func genStall(t *rapid.T, forC11 bool) stallCase {
	c := stallCase{Extra: rapid.IntRange(4, 7).Draw(t, "extra"), V2019: rapid.Bool().Draw(t, "v2019"), BigBytes: 12 << 20,
		End: rapid.SampledFrom([]string{"half", "half", "fin", "rst"}).Draw(t, "end"), Rejoin: rapid.Bool().Draw(t, "rejoin")}
	if forC11 {
		c.StallMs = rapid.SampledFrom([]int{200, 3400, 3400}).Draw(t, "stall")
		c.Joiners = rapid.IntRange(1, 2).Draw(t, "joiners")
	} else {
		c.StallMs = rapid.SampledFrom([]int{20, 60, 60, 300, 300, 2000}).Draw(t, "stall") // 2000: answers arrive long after the callers' 500 ms timeouts
		c.Joiners = rapid.IntRange(0, 1).Draw(t, "joiners")
	}
	return c
}

func stallIdentity(i int, v2019 bool) identity {
	return identity{Digits: fmt.Sprintf("1370000%04d", 2000+i), V2019: v2019}
}

func stallScenario(c stallCase) Scenario {
	sc := Scenario{MaxMs: c.StallMs + 12000}
	hb := func(id identity, serial uint16) []byte { return frame(id, 0x0002, serial, nil) }
	stalled := stallIdentity(0, c.V2019)
	parties := 2 + c.Joiners
	ts := []Step{{Op: "dial"}, {Op: "respond", Rules: []Rule{{Behaviour: "ignore"}}}, {Op: "write", Hex: hb(stalled, 1)}, {Op: "wait_frames", N: 1, DeadlineMs: 5000},
		{Op: "stall_reads"}, {Op: "barrier", Barrier: "joined", Parties: 2},
		{Op: "barrier", Barrier: "queued", Parties: parties}, {Op: "pause", PauseUs: c.StallMs * 1000}, {Op: "close", Mode: c.End}}
	// after a half close the socket stays as it is (a later full close would reset the server's pending write and
	// release what the FIN alone has to release)
	ts = append(ts, Step{Op: "barrier", Barrier: "released", Parties: parties})
	if c.Rejoin {
		ts = append(ts, Step{Op: "pause", PauseUs: 50000}, Step{Op: "dial"}, Step{Op: "respond", Rules: []Rule{{Behaviour: "answer"}}}, Step{Op: "write", Hex: hb(stalled, 50)},
			Step{Op: "wait_frames", N: 1, DeadlineMs: 5000})
	}
	ts = append(ts, Step{Op: "barrier", Barrier: "probe", Parties: parties}, Step{Op: "barrier", Barrier: "done", Parties: parties}, Step{Op: "close", Mode: "fin"})
	sc.Actors = append(sc.Actors, Actor{Name: "stalled", Kind: "terminal", Steps: ts})

	ps := []Step{{Op: "barrier", Barrier: "joined", Parties: 2},
		{Op: "send", Key: stalled.key(), Cmd: 0x8104, BodyFill: c.BigBytes, TimeoutMs: 500, Async: true, CallID: 300}, {Op: "pause", PauseUs: 30000}}
	for i := 0; i < c.Extra; i++ {
		ps = append(ps, Step{Op: "send", Key: stalled.key(), Cmd: 0x8104, Body: []byte{0xd0, byte(i)}, TimeoutMs: 500, Async: true, CallID: 301 + i}, Step{Op: "pause", PauseUs: 2000})
	}
	ps = append(ps, Step{Op: "pause", PauseUs: 20000}, Step{Op: "barrier", Barrier: "queued", Parties: parties},
		Step{Op: "join_calls", DeadlineMs: c.StallMs + 3500}, Step{Op: "barrier", Barrier: "released", Parties: parties}, Step{Op: "barrier", Barrier: "probe", Parties: parties})
	for j := 0; j < c.Joiners; j++ {
		ps = append(ps, Step{Op: "send", Key: stallIdentity(1+j, !c.V2019).key(), Cmd: 0x8104, Body: []byte{0xe0, byte(j)}, TimeoutMs: 1500, CallID: 400 + j})
	}
	if c.Rejoin {
		ps = append(ps, Step{Op: "send", Key: stalled.key(), Cmd: 0x8104, Body: []byte{0xe9}, TimeoutMs: 1500, CallID: 450})
	}
	// a key nobody holds: not-exist at once, also after all of this
	ps = append(ps, Step{Op: "send", Key: stallIdentity(99, false).key(), Cmd: 0x8104, Body: []byte{0xef}, TimeoutMs: 1500, CallID: 499},
		Step{Op: "barrier", Barrier: "done", Parties: parties})
	sc.Actors = append(sc.Actors, Actor{Name: "platform", Kind: "platform", Steps: ps})

	for j := 0; j < c.Joiners; j++ {
		id := stallIdentity(1+j, !c.V2019)
		sc.Actors = append(sc.Actors, Actor{Name: fmt.Sprintf("joiner%d", j), Kind: "terminal", Steps: []Step{
			{Op: "barrier", Barrier: "queued", Parties: parties}, {Op: "pause", PauseUs: 5000 + 7000*j}, {Op: "dial"}, {Op: "respond", Rules: []Rule{{Behaviour: "answer"}}},
			{Op: "write", Hex: hb(id, 1)}, {Op: "wait_frames", N: 1, DeadlineMs: c.StallMs + 6000},
			{Op: "write", Hex: hb(id, 2)}, {Op: "wait_frames", N: 2, DeadlineMs: 4000},
			{Op: "barrier", Barrier: "released", Parties: parties}, {Op: "barrier", Barrier: "probe", Parties: parties}, {Op: "barrier", Barrier: "done", Parties: parties},
			{Op: "close", Mode: "fin"}}})
	}
	return sc
}

// judgeStall: what: "C13" or "C11" selects which half of the observations is judged.
func judgeStall(c stallCase, what string) kit.Result {
	res := kit.Result{}
	h := runScenario(stallScenario(c))
	if !childVerdict(h, &res) {
		return res
	}
	for _, e := range h.Events {
		switch e.Kind {
		case "dial_err":
			res.Err = fmt.Errorf("INFRA %s", e.Err)
			return res
		case "child_timeout":
			res.Err = fmt.Errorf("SOFT the scenario did not finish: %s", e.Note)
			return res
		}
	}
	result := func(id int) (ev []Event) {
		for _, e := range h.Events {
			if e.Kind == "call_result" && e.Call == id {
				ev = append(ev, e)
			}
		}
		return
	}
	// was the manager really stalled? the last small command cannot have been written before the disconnect
	res.Labels = []string{"end_" + c.End, fmt.Sprintf("stall_%dms", c.StallMs), fmt.Sprintf("joiners_%d", c.Joiners)}
	if what == "C13" {
		for _, e := range h.Events {
			if e.Kind == "calls_stranded" || e.Kind == "call_stranded" {
				res.Err = fmt.Errorf("SOFT stalled terminal left with %q: %s", c.End, e.Note)
				return res
			}
		}
		for id := 300; id <= 300+c.Extra; id++ {
			r := result(id)
			if len(r) != 1 {
				res.Err = fmt.Errorf("SOFT command %d for the stalled terminal (left with %q after %d ms) returned %d times - the caller is stranded", id, c.End, c.StallMs, len(r))
				return res
			}
			if r[0].Err == "" && !r[0].Flag {
				res.Err = kit.Fail("command %d returned neither a response nor an error", id)
				return res
			}
			if r[0].Err == "" {
				res.Err = kit.Fail("command %d for a terminal that answers nothing returned a response", id)
				return res
			}
			if r[0].DurUs/1000 > int64(c.StallMs)+500+3000 {
				res.Err = fmt.Errorf("SOFT command %d returned only after %d ms (terminal gone after about %d ms, timeout 500 ms)", id, r[0].DurUs/1000, c.StallMs+100)
				return res
			}
		}
	}
	// the server goes on serving: terminals that joined during the stall are registered, answered and routable
	for j := 0; j < c.Joiners; j++ {
		name := fmt.Sprintf("joiner%d", j)
		id := stallIdentity(1+j, !c.V2019)
		frames, _, bad := serverFrames(h, name)
		if bad != "" {
			res.Err = kit.Fail("%s", bad)
			return res
		}
		replies := 0
		for _, f := range frames {
			if f.ID == 0x8001 && len(f.Body) >= 2 && (ref.BE16(f.Body) == 1 || ref.BE16(f.Body) == 2) {
				replies++
			}
		}
		eof := false
		for _, e := range h.Events {
			if e.Actor == name && (e.Kind == "eof" || e.Kind == "read_err") {
				closedByItself := false
				for _, l := range h.Events {
					closedByItself = closedByItself || (l.Actor == name && l.Kind == "close" && l.Seq < e.Seq)
				}
				eof = eof || !closedByItself
			}
		}
		if eof {
			res.Err = fmt.Errorf("SOFT %s said hello while the session manager was stalled for %d ms and was disconnected by the server", name, c.StallMs)
			return res
		}
		if replies != 2 {
			res.Err = fmt.Errorf("SOFT %s (hello during a %d ms stall, then a heartbeat) got %d of 2 general responses", name, c.StallMs, replies)
			return res
		}
		// evidence that the stall was real: the hello was announced only about when the stalled terminal left
		var helloAt, joinAt int64 = -1, -1
		for _, e := range h.Events {
			if e.Actor == name && e.Kind == "sent" && helloAt < 0 {
				helloAt = e.TUs
			}
			if e.Kind == "cb_join" && e.Key == id.key() && joinAt < 0 {
				joinAt = e.TUs
			}
		}
		if helloAt >= 0 && joinAt-helloAt > int64(c.StallMs)*500 {
			res.Labels = append(res.Labels, "join_waited_for_the_stalled_manager")
		}
		okJoin, badJoin, leaves := 0, 0, 0
		for _, e := range h.Events {
			if e.Kind == "cb_join" && e.Key == id.key() {
				if e.Err == "" {
					okJoin++
				} else {
					badJoin++
				}
			}
			if e.Kind == "cb_leave" && e.Key == id.key() {
				leaves++
			}
		}
		if okJoin != 1 || badJoin != 0 {
			res.Err = fmt.Errorf("SOFT key %s joined once during the stall but the join callback saw %d successful and %d refused announcements", id.key(), okJoin, badJoin)
			return res
		}
		if leaves > 1 {
			res.Err = kit.Fail("key %s: %d leave announcements for one connection", id.key(), leaves)
			return res
		}
		r := result(400 + j)
		if len(r) != 1 || !r[0].Flag || r[0].Err != "" {
			res.Err = fmt.Errorf("SOFT the command for %s (online since the stall) returned %d times, err %q", name, len(r), first(r).Err)
			return res
		}
	}
	if c.Rejoin {
		r := result(450)
		if len(r) != 1 || !r[0].Flag || r[0].Err != "" {
			res.Err = fmt.Errorf("SOFT after leaving with %q the stalled terminal reconnected with its key but the command for it returned %d times, err %q", c.End, len(r), first(r).Err)
			return res
		}
		res.Labels = append(res.Labels, "key_reused_after_stall")
	}
	if r := result(499); len(r) != 1 || r[0].Note != "not_exist" {
		res.Err = fmt.Errorf("SOFT a command for a key that never joined returned %d times, note %q", len(r), first(r).Note)
		return res
	}
	res.NT = true
	return res
}

func first(r []Event) Event {
	if len(r) == 0 {
		return Event{}
	}
	return r[0]
}

func TestC13Stall(t *testing.T) {
	kit.Run(t, kit.Prop[stallCase]{ID: "C13", Part: "TestC13Stall", Gen: func(t *rapid.T) stallCase { return genStall(t, false) },
		Check: softRetry(func(c stallCase, _ *kit.Collector) kit.Result { return judgeStall(c, "C13") })})
}

func TestC11Stall(t *testing.T) {
	kit.Run(t, kit.Prop[stallCase]{ID: "C11", Part: "TestC11Stall", Gen: func(t *rapid.T) stallCase { return genStall(t, true) },
		Check: softRetry(func(c stallCase, _ *kit.Collector) kit.Result { return judgeStall(c, "C11") })})
}
