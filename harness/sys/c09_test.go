package sys

import (
	"fmt"
	"testing"

	"verif/harness/kit"
	"verif/harness/ref"

	"pgregory.net/rapid"
)

// C09 (socket level): messages kept by callbacks stay what they were at delivery while later data arrives and
// after the connection closes; replies are computed from the message they belong to.

type c09Case struct {
	Conv    c06Case `json:"conversation"`
	Handoff bool    `json:"handoff_to_goroutine"`
	Command bool    `json:"a_platform_command_is_answered_at_the_end,omitempty"` // the terminal's answer is itself a delivered message that must stay what it was
}

func genC09Socket(t *rapid.T) c09Case {
	c := c09Case{Handoff: rapid.Bool().Draw(t, "handoff"), Command: rapid.IntRange(0, 2).Draw(t, "command") == 0}
	c.Conv.HoldUs = rapid.SampledFrom([]int{0, 200, 2000}).Draw(t, "hold")
	n := rapid.IntRange(1, 2).Draw(t, "terminals")
	for i := 0; i < n; i++ {
		conv := genConv(t, genIdentity(t, i, fmt.Sprintf("id%d", i)), 12, true, fmt.Sprintf("t%d", i))
		// stress reuse: mostly one frame per write with tiny gaps, so each frame is its own read into the buffer
		for k := range conv.Group {
			if rapid.IntRange(0, 3).Draw(t, "single") != 0 {
				conv.Group[k] = 1
			}
			conv.Gap[k] = rapid.SampledFrom([]int{0, 0, 30, 300, 2000}).Draw(t, "gap")
		}
		c.Conv.Terminals = append(c.Conv.Terminals, conv)
	}
	return c
}

func checkC09Socket(c c09Case, _ *kit.Collector) kit.Result {
	res := kit.Result{}
	sc := Scenario{ReadHoldUs: c.Conv.HoldUs, Handoff: c.Handoff}
	parties := len(c.Conv.Terminals) + 1
	var ps []Step
	for i, t := range c.Conv.Terminals {
		steps, _ := convSteps(t, true)
		if c.Command {
			// before hanging up the terminal answers one platform command (0x8104 -> 0x0104)
			last := len(steps) - 1
			for last > 0 && steps[last].Op != "close" {
				last--
			}
			tail := append([]Step{{Op: "barrier", Barrier: "conversations_over", Parties: parties}, {Op: "barrier", Barrier: "commanded", Parties: parties}, {Op: "pause", PauseUs: 20000}}, steps[last:]...)
			steps = append(append([]Step{{Op: "respond", Rules: []Rule{{Behaviour: "answer"}}}}, steps[:last]...), tail...)
			ps = append(ps, Step{Op: "send", Key: t.ID.key(), Cmd: 0x8104, Body: []byte{0x9c, byte(i)}, TimeoutMs: 1500, CallID: 1 + i})
		}
		sc.Actors = append(sc.Actors, Actor{Name: fmt.Sprintf("t%d", i), Kind: "terminal", Steps: steps})
	}
	if c.Command {
		ps = append(append([]Step{{Op: "barrier", Barrier: "conversations_over", Parties: parties}}, ps...), Step{Op: "barrier", Barrier: "commanded", Parties: parties})
		sc.Actors = append(sc.Actors, Actor{Name: "platform", Kind: "platform", Steps: ps})
		res.Labels = append(res.Labels, "answer_to_a_command_kept")
	}
	h := runScenario(sc)
	if !childVerdict(h, &res) {
		return res
	}
	if c.Command { // the command frame is not part of the conversation the model judges
		var ev []Event
		for _, e := range h.Events {
			if e.Kind == "recv" {
				if f, why := ref.Validate(e.Data); why == "" && f.ID == 0x8104 {
					continue
				}
			}
			ev = append(ev, e)
		}
		h.Events = ev
	}
	kept := 0
	for _, e := range h.Events {
		if e.Kind == "stable_check" {
			kept++
			if e.Err != "" {
				res.Err = kit.Fail("a message kept by the read callback (delivered as %x) changed afterwards: %s", []byte(e.Data), e.Err)
				return res
			}
		}
	}
	for i, t := range c.Conv.Terminals {
		labels, err := judgeConversation(fmt.Sprintf("t%d", i), t, h, 0)
		if err != nil {
			res.Err = err
			return res
		}
		res.Labels = append(res.Labels, labels...)
	}
	res.Labels = dedup(append(res.Labels, fmt.Sprintf("hold_%dus", c.Conv.HoldUs)))
	if c.Handoff {
		res.Labels = append(res.Labels, "handoff")
	}
	res.NT = kept >= 3
	return res
}

func TestC09Socket(t *testing.T) {
	kit.Run(t, kit.Prop[c09Case]{ID: "C09", Part: "TestC09Socket", Gen: genC09Socket, Check: softRetry(checkC09Socket)})
}
