package sys

import (
	"fmt"
	"testing"

	"verif/harness/kit"

	"pgregory.net/rapid"
)

// C09 (socket level): messages kept by callbacks stay what they were at delivery while later data arrives and
// after the connection closes; replies are computed from the message they belong to.

type c09Case struct {
	Conv    c06Case `json:"conversation"`
	Handoff bool    `json:"handoff_to_goroutine"`
}

func genC09Socket(t *rapid.T) c09Case {
	c := c09Case{Handoff: rapid.Bool().Draw(t, "handoff")}
	c.Conv.HoldUs = rapid.SampledFrom([]int{0, 200, 2000}).Draw(t, "hold")
	n := rapid.IntRange(1, 2).Draw(t, "terminals")
	for i := 0; i < n; i++ {
		conv := genConv(t, genIdentity(t, i, fmt.Sprintf("id%d", i)), 12, true, fmt.Sprintf("t%d", i))
		// stress reuse: mostly one frame per write with tiny gaps, so each frame is its own read into the buffer
		for k := range conv.Group {
			if rapid.IntRange(0, 3).Draw(t, "single") != 0 {
				conv.Group[k] = 1
			}
			conv.Gap[k] = rapid.SampledFrom([]int{0, 0, 30, 300, 2000}).Draw(t, "gap")
		}
		c.Conv.Terminals = append(c.Conv.Terminals, conv)
	}
	return c
}

func checkC09Socket(c c09Case, _ *kit.Collector) kit.Result {
	res := kit.Result{}
	sc := Scenario{ReadHoldUs: c.Conv.HoldUs, Handoff: c.Handoff}
	for i, t := range c.Conv.Terminals {
		steps, _ := convSteps(t, true)
		sc.Actors = append(sc.Actors, Actor{Name: fmt.Sprintf("t%d", i), Kind: "terminal", Steps: steps})
	}
	h := runScenario(sc)
	if !childVerdict(h, &res) {
		return res
	}
	kept := 0
	for _, e := range h.Events {
		if e.Kind == "stable_check" {
			kept++
			if e.Err != "" {
				res.Err = kit.Fail("a message kept by the read callback (delivered as %x) changed afterwards: %s", []byte(e.Data), e.Err)
				return res
			}
		}
	}
	for i, t := range c.Conv.Terminals {
		labels, err := judgeConversation(fmt.Sprintf("t%d", i), t, h, 0)
		if err != nil {
			res.Err = err
			return res
		}
		res.Labels = append(res.Labels, labels...)
	}
	res.Labels = dedup(append(res.Labels, fmt.Sprintf("hold_%dus", c.Conv.HoldUs)))
	if c.Handoff {
		res.Labels = append(res.Labels, "handoff")
	}
	res.NT = kept >= 3
	return res
}

func TestC09Socket(t *testing.T) {
	kit.Run(t, kit.Prop[c09Case]{ID: "C09", Part: "TestC09Socket", Gen: genC09Socket, Check: softRetry(checkC09Socket)})
}
