package sys

import (
	"encoding/json"
	"os"
	"testing"
)

// TestDumpC12 writes the scenario of a tiny fixed C12 case (development aid).
func TestDumpC12(t *testing.T) {
	p := os.Getenv("VERIF_DUMP")
	if p == "" {
		t.Skip()
	}
	c := c12Case{Terminals: []identity{{Digits: "13800131000"}}, Plain: []int{2}, Calls: []call{{ID: 1, Terminal: 0, Cmd: 0x8103, TimeoutMs: 300, Behaviour: "answer"}}}
	if f := os.Getenv("VERIF_DUMP_CASE"); f != "" {
		cb, _ := os.ReadFile(f)
		c = c12Case{}
		json.Unmarshal(cb, &c)
	}
	b, _ := json.Marshal(c12Scenario(c))
	if f := os.Getenv("VERIF_DUMP_C13"); f != "" {
		cb, _ := os.ReadFile(f)
		var c13 c13Case
		json.Unmarshal(cb, &c13)
		b, _ = json.Marshal(c13Scenario(c13))
	}
	os.WriteFile(p, b, 0o644)
}
