package sys

import (
	"fmt"
	"testing"

	"verif/harness/kit"

	"pgregory.net/rapid"
)

// C13, timeouts firing while other commands of the same connection are still outstanding: a terminal that is online and
// silent gets 2..5 commands with different timeouts (a long one first, shorter ones behind it, in drawn order); 0..2 of
// them are answered. Every call must return within its own timeout plus slack - a short timeout may not wait for an
// older, longer one - and the terminal leaves only after the longest deadline (fin or reset), which must not disturb
// calls that have already returned. The fault points of TestC13 all disconnect within a second, which releases every
// caller at once and hides a late timeout.

type c13tCase struct {
	TimeoutMs []int  `json:"timeouts_ms"`
	Answered  []bool `json:"answered"`
	GapUs     []int  `json:"gap_us"`
	V2019     bool   `json:"v2019"`
	CloseMode string `json:"close"`
	WriteHold int    `json:"write_hold_us,omitempty"`
}

func genC13t(t *rapid.T) c13tCase {
	c := c13tCase{V2019: rapid.Bool().Draw(t, "v2019"), CloseMode: rapid.SampledFrom([]string{"fin", "rst"}).Draw(t, "close"), WriteHold: rapid.SampledFrom([]int{0, 0, 300}).Draw(t, "write_hold")}
	n := rapid.IntRange(2, 5).Draw(t, "calls")
	long := rapid.SampledFrom([]int{2500, 3500, 4500}).Draw(t, "long")
	at := rapid.IntRange(0, min(1, n-2)).Draw(t, "long_at")
	for i := 0; i < n; i++ {
		to := rapid.SampledFrom([]int{40, 150, 300, 700, 1200}).Draw(t, "timeout")
		if i == at {
			to = long
		}
		c.TimeoutMs = append(c.TimeoutMs, to)
		c.Answered = append(c.Answered, i != at && rapid.IntRange(0, 3).Draw(t, "answered") == 0)
		c.GapUs = append(c.GapUs, rapid.SampledFrom([]int{0, 200, 5000, 60000}).Draw(t, "gap"))
	}
	return c
}

func checkC13t(c c13tCase, _ *kit.Collector) kit.Result {
	res := kit.Result{}
	id := identity{Digits: "13800139101", V2019: c.V2019}
	longest := 0
	var rules []Rule
	for i, to := range c.TimeoutMs {
		longest = max(longest, to)
		b := "ignore"
		if c.Answered[i] {
			b = "answer"
		}
		rules = append(rules, Rule{Cmd: 0x8104, Prefix: []byte{0xa5, byte(i)}, Behaviour: b})
	}
	sc := Scenario{WriteHoldUs: c.WriteHold, MaxMs: longest + 20000}
	ts := []Step{{Op: "dial"}, {Op: "respond", Rules: rules}, {Op: "write", Hex: frame(id, 0x0002, 1, nil)}, {Op: "wait_frames", N: 1, DeadlineMs: 3000},
		{Op: "barrier", Barrier: "online", Parties: 2}, {Op: "barrier", Barrier: "returned", Parties: 2}, {Op: "close", Mode: c.CloseMode}}
	ps := []Step{{Op: "barrier", Barrier: "online", Parties: 2}}
	for i, to := range c.TimeoutMs {
		ps = append(ps, Step{Op: "send", Key: id.key(), Cmd: 0x8104, Body: []byte{0xa5, byte(i)}, TimeoutMs: to, Async: true, CallID: i + 1}, Step{Op: "pause", PauseUs: c.GapUs[i]})
	}
	ps = append(ps, Step{Op: "join_calls", DeadlineMs: 4000}, Step{Op: "barrier", Barrier: "returned", Parties: 2})
	sc.Actors = []Actor{{Name: "t", Kind: "terminal", Steps: ts}, {Name: "platform", Kind: "platform", Steps: ps}}
	h := runScenario(sc)
	if !childVerdict(h, &res) {
		return res
	}
	for _, e := range h.Events {
		switch e.Kind {
		case "dial_err":
			res.Err = fmt.Errorf("INFRA %s", e.Err)
			return res
		case "timeout":
			res.Err = fmt.Errorf("SOFT %s: %s", e.Actor, e.Note)
			return res
		case "calls_stranded", "call_stranded":
			res.Err = fmt.Errorf("SOFT %s", e.Note)
			return res
		}
	}
	const slackMs = 1200
	for i, to := range c.TimeoutMs {
		n := 0
		for _, e := range h.Events {
			if e.Kind != "call_result" || e.Call != i+1 {
				continue
			}
			n++
			if c.Answered[i] {
				if e.Err != "" || !e.Flag {
					res.Err = fmt.Errorf("SOFT call %d (timeout %d ms), which the terminal answered at once, returned %q", i+1, to, e.Err)
					return res
				}
				continue
			}
			if e.Note != "overtime" {
				res.Err = kit.Fail("call %d (timeout %d ms) to a silent online terminal returned %q, want the timeout error", i+1, to, e.Err)
				return res
			}
			if e.DurUs/1000 > int64(to+slackMs) {
				res.Err = fmt.Errorf("SOFT call %d with timeout %d ms returned only after %d ms (timeouts of the calls outstanding on this connection, in sending order: %v)", i+1, to, e.DurUs/1000, c.TimeoutMs)
				return res
			}
		}
		if n != 1 {
			res.Err = fmt.Errorf("SOFT call %d of %d (timeout %d ms) returned %d times", i+1, len(c.TimeoutMs), to, n)
			return res
		}
	}
	res.Labels = []string{"long_timeout_then_shorter_ones", fmt.Sprintf("calls_%d", len(c.TimeoutMs))}
	res.NT = true
	return res
}

func TestC13Timeouts(t *testing.T) {
	kit.Run(t, kit.Prop[c13tCase]{ID: "C13", Part: "TestC13Timeouts", Gen: genC13t, Check: softRetry(checkC13t)})
}
