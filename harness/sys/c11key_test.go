package sys

import (
	"fmt"
	"testing"

	"verif/harness/kit"
	"verif/harness/ref"

	"pgregory.net/rapid"
)

// C11 under a custom WithKeyFunc (the README's "key must be unique, default is the phone number"). Two skeletons with
// drawn parameters, every step awaited, every outcome known:
//
//   auth_only - the key function accepts a key only from register / authentication messages. A terminal that starts
//     with heartbeats is served but not online; the authentication message joins it: announced once without error,
//     routable from then on, refused to a second connection, one leave with that key when it ends.
//   strip     - key = phone number without a fleet prefix; the gateway whose phone number IS the prefix has the empty
//     string as key. The empty key is a key like any other: owned by one connection, routable, freed on close
//     (not-exist afterwards, and a new connection can take it).

type keyCase struct {
	Mode       string `json:"key_func"` // auth_only | strip
	V2019      bool   `json:"v2019"`
	Heartbeats int    `json:"heartbeats_before_auth"`
	Register   bool   `json:"joins_with_0x0100"`
	CloseMode  string `json:"close"`
	Procs      int    `json:"gomaxprocs,omitempty"`
	LeaveSend  bool   `json:"leave_callback_sends_a_command,omitempty"` // the leave callback asks the service about the key that just left
}

func genKeyCase(t *rapid.T) keyCase {
	return keyCase{Mode: rapid.SampledFrom([]string{"auth_only", "strip"}).Draw(t, "mode"), V2019: rapid.Bool().Draw(t, "v2019"),
		Heartbeats: rapid.IntRange(0, 3).Draw(t, "heartbeats"), Register: rapid.Bool().Draw(t, "register"),
		CloseMode: rapid.SampledFrom([]string{"fin", "rst"}).Draw(t, "close"), Procs: rapid.SampledFrom([]int{0, 1, 4}).Draw(t, "procs"),
		LeaveSend: rapid.Bool().Draw(t, "leave_send")}
}

func checkKeyCase(c keyCase, _ *kit.Collector) kit.Result {
	res := kit.Result{}
	const prefix = "1390000"
	sc := Scenario{KeyMode: c.Mode, KeyPrefix: "", Procs: c.Procs, OnLeaveSend: c.LeaveSend}
	var aID, uID identity
	var aKey, uKey string
	if c.Mode == "strip" {
		sc.KeyPrefix = prefix
		aID, uID = identity{Digits: prefix, V2019: c.V2019}, identity{Digits: prefix + "7", V2019: !c.V2019}
		aKey, uKey = "", "7"
	} else {
		aID, uID = identity{Digits: "13900001001", V2019: c.V2019}, identity{Digits: "13900001002", V2019: !c.V2019}
		aKey, uKey = aID.key(), uID.key()
	}
	hb := func(id identity, serial uint16) []byte { return frame(id, 0x0002, serial, nil) }
	joinMsg := func(id identity, serial uint16) []byte {
		if c.Register {
			b, n := make([]byte, 37), 37
			if id.V2019 {
				n = 76
				b = make([]byte, n)
			}
			return frame(id, 0x0100, serial, append(b[:n], "A1"...))
		}
		code := []byte("code")
		if id.V2019 {
			b := append([]byte{byte(len(code))}, code...)
			b = append(b, "123456789012345"...)
			return frame(id, 0x0102, serial, append(b, make([]byte, 20)...))
		}
		return frame(id, 0x0102, serial, code)
	}
	pre := c.Heartbeats
	if c.Mode == "strip" {
		pre = 0 // every message carries a key
	}
	const all = 5 // a, u, dup, again, platform
	bar := func(name string) Step { return Step{Op: "barrier", Barrier: name, Parties: all} }
	answer := Step{Op: "respond", Rules: []Rule{{Behaviour: "answer"}}}
	// terminal a
	as := []Step{{Op: "dial"}, answer}
	for i := 0; i < pre; i++ {
		as = append(as, Step{Op: "write", Hex: hb(aID, uint16(1+i))}, Step{Op: "wait_frames", N: i + 1, DeadlineMs: 3000})
	}
	as = append(as, bar("served_not_online"), bar("probed_offline"))
	if c.Mode == "strip" {
		as = append(as, Step{Op: "write", Hex: hb(aID, 10)})
	} else {
		as = append(as, Step{Op: "write", Hex: joinMsg(aID, 10)})
	}
	as = append(as, Step{Op: "wait_frames", N: pre + 1, DeadlineMs: 3000}, bar("online"), bar("probed_online"), bar("dup_refused"), bar("after_dup"),
		Step{Op: "close", Mode: c.CloseMode}, Step{Op: "pause", PauseUs: 80000}, bar("closed"), bar("probed_closed"), bar("taken_again"), bar("done"))
	// terminal u: another key, online throughout, must never be disturbed
	us := []Step{{Op: "dial"}, answer, {Op: "write", Hex: joinMsg(uID, 1)}, {Op: "wait_frames", N: 1, DeadlineMs: 3000}, bar("served_not_online"), bar("probed_offline"), bar("online"),
		bar("probed_online"), bar("dup_refused"), bar("after_dup"), bar("closed"), bar("probed_closed"), bar("taken_again"), bar("done"), {Op: "close", Mode: "fin"}}
	// dup: presents a's key while a is online
	ds := []Step{bar("served_not_online"), bar("probed_offline"), bar("online"), bar("probed_online"), {Op: "dial"}}
	dupReplies := 0
	if c.Mode == "auth_only" && pre > 0 {
		ds = append(ds, Step{Op: "write", Hex: hb(aID, 50)}, Step{Op: "wait_frames", N: 1, DeadlineMs: 3000}) // not a join attempt with a key: served
		dupReplies = 1
	}
	if c.Mode == "strip" {
		ds = append(ds, Step{Op: "write", Hex: hb(aID, 51)})
	} else {
		ds = append(ds, Step{Op: "write", Hex: joinMsg(aID, 51)})
	}
	ds = append(ds, Step{Op: "wait_eof", DeadlineMs: 3000}, bar("dup_refused"), bar("after_dup"), bar("closed"), bar("probed_closed"), bar("taken_again"), bar("done"))
	// again: takes a's key after a has gone
	gs := []Step{bar("served_not_online"), bar("probed_offline"), bar("online"), bar("probed_online"), bar("dup_refused"), bar("after_dup"), bar("closed"), bar("probed_closed"), {Op: "dial"}, answer}
	if c.Mode == "strip" {
		gs = append(gs, Step{Op: "write", Hex: hb(aID, 70)})
	} else {
		gs = append(gs, Step{Op: "write", Hex: joinMsg(aID, 70)})
	}
	gs = append(gs, Step{Op: "wait_frames", N: 1, DeadlineMs: 3000}, bar("taken_again"), bar("done"), Step{Op: "close", Mode: "fin"})
	send := func(key string, call int, tag byte) Step {
		return Step{Op: "send", Key: key, Cmd: 0x8104, Body: []byte{0xd0, tag}, TimeoutMs: 1500, CallID: call}
	}
	ps := []Step{bar("served_not_online")}
	if c.Mode == "auth_only" {
		ps = append(ps, send(aKey, 2, 1)) // a is connected and served but has not presented a key: not online
	}
	ps = append(ps, send(uKey, 4, 2), bar("probed_offline"), bar("online"), send(aKey, 6, 3), send(uKey, 8, 4), bar("probed_online"), bar("dup_refused"), send(aKey, 10, 5), bar("after_dup"), bar("closed"),
		send(aKey, 12, 6), send(uKey, 14, 7), bar("probed_closed"), bar("taken_again"), send(aKey, 16, 8), send(uKey, 18, 9), bar("done"))
	sc.Actors = []Actor{{Name: "a", Kind: "terminal", Steps: as}, {Name: "u", Kind: "terminal", Steps: us}, {Name: "dup", Kind: "terminal", Steps: ds},
		{Name: "again", Kind: "terminal", Steps: gs}, {Name: "platform", Kind: "platform", Steps: ps}}

	h := runScenario(sc)
	if !childVerdict(h, &res) {
		return res
	}
	cmds := map[string][]byte{} // actor -> tags of the commands it received
	replies := map[string]int{}
	eof := map[string]bool{}
	closed := map[string]bool{}
	for _, e := range h.Events {
		switch {
		case e.Kind == "dial_err":
			res.Err = fmt.Errorf("INFRA %s", e.Err)
			return res
		case e.Kind == "timeout" && e.Actor != "":
			res.Err = fmt.Errorf("SOFT %s: %s", e.Actor, e.Note)
			return res
		case e.Kind == "close":
			closed[e.Actor] = true
		case e.Kind == "recv":
			if f, why := ref.Validate(e.Data); why == "" && f.ID == 0x8104 && len(f.Body) == 2 {
				cmds[e.Actor] = append(cmds[e.Actor], f.Body[1])
			} else if why == "" {
				replies[e.Actor]++
			}
		case (e.Kind == "eof" || e.Kind == "read_err") && !closed[e.Actor]:
			eof[e.Actor] = true
		}
	}
	what := fmt.Sprintf("key function %s, key %q", c.Mode, aKey)
	if eof["a"] || eof["u"] || eof["again"] {
		res.Err = kit.Fail("%s: a connection that owned its key was closed by the server (a=%v u=%v again=%v)", what, eof["a"], eof["u"], eof["again"])
		return res
	}
	if replies["dup"] != dupReplies || len(cmds["dup"]) != 0 {
		res.Err = kit.Fail("%s: the second connection presenting the key while its owner was online got %d replies (want %d) and %d commands", what, replies["dup"], dupReplies, len(cmds["dup"]))
		return res
	}
	if !eof["dup"] {
		res.Err = fmt.Errorf("SOFT %s: the second connection presenting an online key was not closed within 3 s", what)
		return res
	}
	wantCmd := map[string]string{"a": "\x03\x05", "u": "\x02\x04\x07\x09", "again": "\x08", "dup": ""}
	for actor, want := range wantCmd {
		if string(cmds[actor]) != want {
			res.Err = kit.Fail("%s: terminal %q received commands %x, want %x (a owns the key between its join and its close, 'again' afterwards, u owns %q throughout)", what, actor, cmds[actor], []byte(want), uKey)
			return res
		}
	}
	returned := map[int]int{}
	for _, e := range h.Events {
		if e.Kind == "call_result" {
			returned[e.Call]++
		}
	}
	for _, id := range []int{2, 4, 6, 8, 10, 12, 14, 16, 18} {
		if (id != 2 || c.Mode == "auth_only") && returned[id] != 1 {
			res.Err = fmt.Errorf("SOFT %s: command %d returned %d times (every call returns exactly once: with the response, or not-exist at once)", what, id, returned[id])
			return res
		}
	}
	for _, e := range h.Events {
		if e.Kind != "call_result" {
			continue
		}
		switch e.Call {
		case 2, 12: // key not online
			if e.Note != "not_exist" {
				res.Err = kit.Fail("%s: command %d for the key while no connection owned it returned %q after %d us, want not-exist", what, e.Call, e.Err, e.DurUs)
				return res
			}
			if e.DurUs > 1000000 {
				res.Err = fmt.Errorf("SOFT %s: not-exist took %d us", what, e.DurUs)
				return res
			}
		default:
			if e.Err != "" || !e.Flag {
				res.Err = kit.Fail("%s: command %d for an online key returned %q (the owner answers every command)", what, e.Call, e.Err)
				return res
			}
		}
	}
	okJoin, leave := map[string]int{}, map[string]int{}
	for _, e := range h.Events {
		if e.Kind == "cb_join" && e.Err == "" {
			okJoin[e.Key]++
		}
		if e.Kind == "cb_leave" {
			leave[e.Key]++
		}
	}
	// the key of a was joined twice (a, again) and left twice; u once each
	if okJoin[aKey] != 2 || okJoin[uKey] != 1 {
		res.Err = kit.Fail("%s: successful join announcements: %d for key %q (want 2: a, later 'again') and %d for key %q (want 1)", what, okJoin[aKey], aKey, okJoin[uKey], uKey)
		return res
	}
	minLeave := 2
	if aKey == "" {
		minLeave = 2 // connections that never joined also report the empty key: at least the two owners
	}
	if leave[aKey] < minLeave || (aKey != "" && leave[aKey] != 2) || leave[uKey] != 1 {
		res.Err = fmt.Errorf("SOFT %s: leave announcements: %d for key %q (want 2) and %d for key %q (want 1)", what, leave[aKey], aKey, leave[uKey], uKey)
		return res
	}
	if c.LeaveSend {
		res.Labels = append(res.Labels, "leave_callback_sends_a_command")
	}
	res.Labels = append(res.Labels, "key_func_"+c.Mode, fmt.Sprintf("heartbeats_before_join_%d", pre))
	res.NT = true
	return res
}

func TestC11KeyFunc(t *testing.T) {
	kit.Run(t, kit.Prop[keyCase]{ID: "C11", Part: "TestC11KeyFunc", Gen: genKeyCase, Check: softRetry(checkKeyCase)})
}
