package sys

import (
	"fmt"
	"testing"

	"verif/harness/kit"

	"pgregory.net/rapid"
)

// C13: disconnects never crash the server or strand callers (fault enumeration).

type c13Case struct {
	Fault     string `json:"fault"` // before_join | close_with_queued | close_on_command | slow_write_callback | close_at_timeout | duplicate_key
	Q         int    `json:"calls"`
	TimeoutMs []int  `json:"timeouts_ms"`
	CloseMode string `json:"close_mode"`
	TermDelay int    `json:"terminal_delay_us"`
	PlatDelay int    `json:"platform_delay_us"`
	Answer    bool   `json:"terminal_answers_until_fault"`
	V2019     bool   `json:"v2019"`
	WriteHold int    `json:"write_hold_us"`
	SameKey   bool   `json:"fresh_terminal_reuses_key"`
	Stagger   []int  `json:"call_stagger_us"`
	ReadHold  int    `json:"read_hold_us"` // the read callback holds every message this long (widens the window between a read and its join)
	// how the victim's key looks: the all-zero phone number, or keys made by WithKeyFunc(prefix + phone)
	ZeroPhone bool   `json:"victim_has_the_all_zero_phone,omitempty"`
	KeyPrefix string `json:"key_func_prefix,omitempty"`
}

var c13Faults = []string{"before_join", "close_with_queued", "close_on_command", "slow_write_callback", "close_at_timeout", "duplicate_key", "manager_lag"}

func genC13(t *rapid.T) c13Case {
	c := c13Case{Fault: rapid.SampledFrom(c13Faults).Draw(t, "fault"), Q: rapid.IntRange(0, 6).Draw(t, "q"),
		CloseMode: rapid.SampledFrom([]string{"fin", "rst"}).Draw(t, "close_mode"), V2019: rapid.Bool().Draw(t, "v2019"),
		Answer: rapid.Bool().Draw(t, "answer"), SameKey: rapid.Bool().Draw(t, "same_key")}
	c.TermDelay = rapid.SampledFrom([]int{0, 0, 20, 100, 300, 1000, 3000}).Draw(t, "term_delay")
	c.PlatDelay = rapid.SampledFrom([]int{0, 0, 20, 100, 300, 1000}).Draw(t, "plat_delay")
	if c.Fault == "close_on_command" || c.Fault == "slow_write_callback" || c.Fault == "close_at_timeout" {
		c.Q = max(c.Q, 1)
	}
	if c.Fault == "slow_write_callback" {
		c.WriteHold = rapid.SampledFrom([]int{2000, 20000}).Draw(t, "write_hold")
	}
	if c.Fault == "duplicate_key" {
		c.ReadHold = rapid.SampledFrom([]int{0, 20000, 20000}).Draw(t, "read_hold")
		if c.ReadHold > 0 {
			c.Q = max(c.Q, 1)
		}
	}
	if c.Fault == "manager_lag" {
		// another terminal's writer is slow (30 ms per write callback) and its 3-slot command queue is full, so the
		// session manager lags behind while the victim's commands and then its leave are queued
		c.WriteHold = 30000
		c.Q = max(c.Q, 2)
	}
	c.ZeroPhone = rapid.IntRange(0, 4).Draw(t, "zero_phone") == 0
	c.KeyPrefix = rapid.SampledFrom([]string{"", "", "", "00", "0"}).Draw(t, "key_prefix")
	// commands without a timeout (OverTimeDuration < 0) come back only with an answer or when the connection ends; not
	// in duplicate_key, where the owner stays until its calls have returned
	noTimeout := 0
	if c.Fault != "duplicate_key" {
		noTimeout = rapid.SampledFrom([]int{0, 0, 1, 2}).Draw(t, "no_timeout_mode") // 1: some calls, 2: a burst of 8..9 calls, all without timeout
	}
	if noTimeout == 2 {
		c.Q = rapid.IntRange(8, 9).Draw(t, "q_burst")
	}
	for i := 0; i < c.Q; i++ {
		to := rapid.SampledFrom([]int{20, 50, 120, 400, 1000}).Draw(t, "timeout")
		// (close_at_timeout derives its disconnect instant from the first call's timeout: that one stays finite)
		if (i > 0 || (noTimeout == 2 && c.Fault != "close_at_timeout")) && (noTimeout == 2 || (noTimeout == 1 && rapid.IntRange(0, 2).Draw(t, "no_timeout") == 0)) {
			to = -1
		}
		c.TimeoutMs = append(c.TimeoutMs, to)
		c.Stagger = append(c.Stagger, rapid.SampledFrom([]int{0, 0, 0, 50, 500}).Draw(t, "stagger"))
	}
	return c
}

func c13Scenario(c c13Case) Scenario {
	sc := Scenario{WriteHoldUs: c.WriteHold, ReadHoldUs: c.ReadHold, KeyPrefix: c.KeyPrefix}
	victim := identity{Digits: "13800139001", V2019: c.V2019, Prefix: c.KeyPrefix}
	if c.ZeroPhone {
		victim.Digits = "0"
	}
	fresh := identity{Digits: "13800139002", V2019: !c.V2019, Prefix: c.KeyPrefix}
	if c.SameKey {
		fresh = victim
	}
	hb := func(id identity, serial uint16) []byte { return frame(id, 0x0002, serial, nil) }
	rule := Rule{Behaviour: "ignore"}
	if c.Answer {
		rule = Rule{Behaviour: "answer"}
	}
	var ts []Step
	switch c.Fault {
	case "before_join":
		ts = []Step{{Op: "dial"}, {Op: "barrier", Barrier: "joined", Parties: 2}, {Op: "barrier", Barrier: "go", Parties: 2},
			{Op: "pause", PauseUs: c.TermDelay}, {Op: "close", Mode: c.CloseMode}}
	case "close_on_command":
		ts = []Step{{Op: "dial"}, {Op: "respond", Rules: []Rule{{Behaviour: "close"}}}, {Op: "write", Hex: hb(victim, 1)}, {Op: "wait_frames", N: 1, DeadlineMs: 5000},
			{Op: "barrier", Barrier: "joined", Parties: 2}, {Op: "barrier", Barrier: "go", Parties: 2}, {Op: "wait_eof", DeadlineMs: 3000}}
	case "slow_write_callback":
		ts = []Step{{Op: "dial"}, {Op: "respond", Rules: []Rule{rule}}, {Op: "write", Hex: hb(victim, 1)}, {Op: "wait_frames", N: 1, DeadlineMs: 5000},
			{Op: "barrier", Barrier: "joined", Parties: 2}, {Op: "barrier", Barrier: "go", Parties: 2},
			{Op: "wait_frames", N: 2, DeadlineMs: 3000}, {Op: "pause", PauseUs: c.TermDelay}, {Op: "close", Mode: c.CloseMode}}
	case "close_at_timeout":
		ts = []Step{{Op: "dial"}, {Op: "respond", Rules: []Rule{{Behaviour: "ignore"}}}, {Op: "write", Hex: hb(victim, 1)}, {Op: "wait_frames", N: 1, DeadlineMs: 5000},
			{Op: "barrier", Barrier: "joined", Parties: 2}, {Op: "barrier", Barrier: "go", Parties: 2},
			{Op: "wait_frames", N: 2, DeadlineMs: 3000}, {Op: "pause", PauseUs: max(0, c.TimeoutMs[0]*1000-1500+c.TermDelay)}, {Op: "close", Mode: c.CloseMode}}
	default: // close_with_queued, duplicate_key
		ts = []Step{{Op: "dial"}, {Op: "respond", Rules: []Rule{rule}}, {Op: "write", Hex: hb(victim, 1)}, {Op: "wait_frames", N: 1, DeadlineMs: 5000},
			{Op: "barrier", Barrier: "joined", Parties: 2}}
		if c.Fault == "close_with_queued" {
			ts = append(ts, Step{Op: "barrier", Barrier: "go", Parties: 2}, Step{Op: "pause", PauseUs: c.TermDelay}, Step{Op: "close", Mode: c.CloseMode})
		} else {
			// the owner stays until the intruder has been refused, so the key's owner is never in doubt
			ts = append(ts, Step{Op: "barrier", Barrier: "go", Parties: 3}, Step{Op: "barrier", Barrier: "calls_returned", Parties: 2},
				Step{Op: "barrier", Barrier: "intruder_done", Parties: 2}, Step{Op: "close", Mode: c.CloseMode},
				Step{Op: "pause", PauseUs: 40000}, Step{Op: "barrier", Barrier: "victim_gone", Parties: 2})
		}
	}
	if c.Fault == "manager_lag" {
		ts = []Step{{Op: "dial"}, {Op: "respond", Rules: []Rule{rule}}, {Op: "write", Hex: hb(victim, 1)}, {Op: "wait_frames", N: 1, DeadlineMs: 5000},
			{Op: "barrier", Barrier: "joined", Parties: 3}, {Op: "barrier", Barrier: "go", Parties: 3}, {Op: "pause", PauseUs: 3000 + c.TermDelay}, {Op: "close", Mode: c.CloseMode}}
	}
	sc.Actors = append(sc.Actors, Actor{Name: "victim", Kind: "terminal", Steps: ts})
	goParties := 2
	busy := identity{Digits: "13800139003", V2019: c.V2019, Prefix: c.KeyPrefix}
	if c.Fault == "manager_lag" {
		goParties = 3
		sc.Actors = append(sc.Actors, Actor{Name: "busy", Kind: "terminal", Steps: []Step{{Op: "dial"}, {Op: "respond", Rules: []Rule{{Behaviour: "answer"}}},
			{Op: "write", Hex: hb(busy, 1)}, {Op: "wait_frames", N: 1, DeadlineMs: 5000}, {Op: "barrier", Barrier: "joined", Parties: 3},
			{Op: "barrier", Barrier: "go", Parties: 3}, {Op: "barrier", Barrier: "lag_over", Parties: 2}, {Op: "close", Mode: "fin"}}})
	}
	if c.Fault == "duplicate_key" {
		goParties = 3
		sc.Actors = append(sc.Actors, Actor{Name: "intruder", Kind: "terminal", Steps: []Step{{Op: "dial"}, {Op: "barrier", Barrier: "go", Parties: 3},
			{Op: "pause", PauseUs: c.TermDelay}, {Op: "write", Hex: hb(victim, 900)}, {Op: "wait_eof", DeadlineMs: 3000}, {Op: "close", Mode: c.CloseMode},
			// a second attempt from a new connection (the first refusal in a process differs from later ones: it loads the time zone)
			{Op: "dial"}, {Op: "pause", PauseUs: c.TermDelay}, {Op: "write", Hex: hb(victim, 901)}, {Op: "wait_eof", DeadlineMs: 3000}, {Op: "close", Mode: c.CloseMode},
			{Op: "barrier", Barrier: "intruder_done", Parties: 2}}})
	}
	joinParties := 2
	if c.Fault == "manager_lag" {
		joinParties = 3
	}
	ps := []Step{{Op: "barrier", Barrier: "joined", Parties: joinParties}, {Op: "barrier", Barrier: "go", Parties: goParties}, {Op: "pause", PauseUs: c.PlatDelay}}
	if c.Fault == "manager_lag" {
		for i := 0; i < 6; i++ { // more than the slow terminal's writer and 3-slot queue absorb at once
			ps = append(ps, Step{Op: "send", Key: busy.key(), Cmd: 0x8104, Body: []byte{0xb0, byte(i)}, TimeoutMs: 3000, Async: true, CallID: 200 + i})
		}
		ps = append(ps, Step{Op: "pause", PauseUs: 1000})
	}
	for i := 0; i < c.Q; i++ {
		if c.Stagger[i] > 0 {
			ps = append(ps, Step{Op: "pause", PauseUs: c.Stagger[i]})
		}
		ps = append(ps, Step{Op: "send", Key: victim.key(), Cmd: 0x8104, Body: []byte{byte(i + 1)}, TimeoutMs: c.TimeoutMs[i], Async: true, CallID: i + 1})
	}
	ps = append(ps, Step{Op: "join_calls", DeadlineMs: 3500})
	if c.Fault == "manager_lag" {
		ps = append(ps, Step{Op: "barrier", Barrier: "lag_over", Parties: 2})
	}
	if c.Fault == "duplicate_key" {
		// the fresh terminal may re-use the key only after its owner has really gone
		ps = append(ps, Step{Op: "barrier", Barrier: "calls_returned", Parties: 2}, Step{Op: "barrier", Barrier: "victim_gone", Parties: 2})
	}
	ps = append(ps, Step{Op: "pause", PauseUs: 30000}, Step{Op: "barrier", Barrier: "after_fault", Parties: 2}, Step{Op: "barrier", Barrier: "fresh_joined", Parties: 2},
		Step{Op: "send", Key: fresh.key(), Cmd: 0x8104, Body: []byte{0xee}, TimeoutMs: 1500, CallID: 100},
		Step{Op: "barrier", Barrier: "fresh_done", Parties: 2})
	sc.Actors = append(sc.Actors, Actor{Name: "platform", Kind: "platform", Steps: ps})
	sc.Actors = append(sc.Actors, Actor{Name: "fresh", Kind: "terminal", Steps: []Step{{Op: "barrier", Barrier: "after_fault", Parties: 2}, {Op: "dial"},
		{Op: "respond", Rules: []Rule{{Behaviour: "answer"}}}, {Op: "write", Hex: hb(fresh, 7)}, {Op: "wait_frames", N: 1, DeadlineMs: 5000},
		{Op: "barrier", Barrier: "fresh_joined", Parties: 2}, {Op: "barrier", Barrier: "fresh_done", Parties: 2}, {Op: "close", Mode: "fin"}}})
	return sc
}

func checkC13(c c13Case, _ *kit.Collector) kit.Result {
	res := kit.Result{}
	h := runScenario(c13Scenario(c))
	if !childVerdict(h, &res) {
		return res
	}
	for _, e := range h.Events {
		switch e.Kind {
		case "dial_err":
			res.Err = fmt.Errorf("INFRA %s", e.Err)
			return res
		case "child_timeout":
			res.Err = fmt.Errorf("SOFT the scenario did not finish: %s", e.Note)
			return res
		}
	}
	for _, e := range h.Events {
		if e.Kind == "calls_stranded" || e.Kind == "call_stranded" {
			res.Err = fmt.Errorf("SOFT fault %q: %s", c.Fault, e.Note)
			return res
		}
	}
	// every call returned exactly once, within timeout + slack
	noTimeoutCalls := false
	for i := 0; i < c.Q; i++ {
		n := 0
		for _, e := range h.Events {
			if e.Kind == "call_result" && e.Call == i+1 {
				n++
				limit := int64(c.TimeoutMs[i]) + 3000
				if c.TimeoutMs[i] < 0 {
					limit = 6000 // no timeout: released by the disconnect, which every fault scenario reaches within a second
					noTimeoutCalls = true
				}
				if e.DurUs/1000 > limit {
					res.Err = fmt.Errorf("SOFT call %d (timeout %d ms) returned only after %d ms", i+1, c.TimeoutMs[i], e.DurUs/1000)
					return res
				}
				if e.Err == "" && !e.Flag {
					res.Err = kit.Fail("call %d returned neither a response nor an error", i+1)
					return res
				}
			}
		}
		if n != 1 {
			res.Err = fmt.Errorf("SOFT fault %q: call %d of %d (timeout %d ms) returned %d times - the caller is stranded", c.Fault, i+1, c.Q, c.TimeoutMs[i], n)
			return res
		}
	}
	if c.Fault == "manager_lag" {
		// the slow terminal is online and answers every command: each of its six calls must come back with that response
		for id := 200; id < 206; id++ {
			ok := false
			for _, e := range h.Events {
				if e.Kind == "call_result" && e.Call == id {
					ok = e.Flag && e.Err == ""
					if !ok {
						res.Err = fmt.Errorf("SOFT command %d for the online (slow) terminal returned %q although the terminal answers every command", id, e.Err)
						return res
					}
				}
			}
			if !ok {
				res.Err = fmt.Errorf("SOFT command %d for the online (slow) terminal never returned", id)
				return res
			}
		}
	}
	// afterwards a fresh terminal can join, be commanded and answer
	freshOK := false
	for _, e := range h.Events {
		if e.Kind == "call_result" && e.Call == 100 {
			freshOK = e.Flag && e.Err == ""
			if !freshOK {
				res.Err = fmt.Errorf("SOFT after fault %q a fresh terminal (same key: %v) could not be commanded: %q", c.Fault, c.SameKey, e.Err)
				return res
			}
		}
	}
	if !freshOK {
		res.Err = fmt.Errorf("SOFT after fault %q the command to a fresh terminal never returned", c.Fault)
		return res
	}
	res.Labels = []string{"fault_" + c.Fault, fmt.Sprintf("q_%d", c.Q), "close_" + c.CloseMode}
	if c.SameKey {
		res.Labels = append(res.Labels, "key_reused_after_fault")
	}
	if noTimeoutCalls {
		res.Labels = append(res.Labels, "calls_without_timeout")
	}
	if c.ZeroPhone || c.KeyPrefix != "" {
		res.Labels = append(res.Labels, "key_with_leading_zeros")
	}
	if c.Q >= 8 {
		res.Labels = append(res.Labels, "q_8..9")
	}
	res.NT = c.Q >= 1
	return res
}

func TestC13(t *testing.T) {
	kit.Run(t, kit.Prop[c13Case]{ID: "C13", Part: "TestC13", Gen: genC13, Check: softRetry(checkC13)})
}
