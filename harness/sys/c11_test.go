package sys

import (
	"bytes"
	"fmt"
	"testing"

	"verif/harness/kit"
	"verif/harness/ref"

	"pgregory.net/rapid"
)

// C11: session registry - at most one live connection per terminal key.

type macro struct {
	Op    string `json:"op"` // dial | hello | msg | close | send | race_hello | race_close_hello | race_send_close
	Conn  int    `json:"conn,omitempty"`
	Conn2 int    `json:"conn2,omitempty"`
	Key   int    `json:"key,omitempty"`
	Phone int    `json:"phone,omitempty"` // msg: phone used in the frame (may differ from the connection's key)
}

type c11Case struct {
	Keys   int     `json:"keys"`
	Conns  int     `json:"connections"`
	Macros []macro `json:"history"`
	// ZeroPhone: key 0 belongs to the terminal whose phone number is all zeros. KeyPrefix: the server is started
	// with WithKeyFunc(func(m) = KeyPrefix + phone), e.g. zero-padded keys
	ZeroPhone bool   `json:"key0_is_the_all_zero_phone,omitempty"`
	KeyPrefix string `json:"key_func_prefix,omitempty"`
}

// c11Keys: how the keys of the current case look (set by c11Compile / checkC11 from the case; one case at a time per process).
var c11Keys struct {
	zeroPhone bool   // key 0 is the terminal whose phone number is all zeros
	prefix    string // the server runs with WithKeyFunc(prefix + phone)
}

func keyIdentity(k int) identity {
	id := identity{Digits: fmt.Sprintf("1390000%04d", 1000+k), Prefix: c11Keys.prefix}
	if k == 0 && c11Keys.zeroPhone {
		id.Digits = "0"
	}
	return id
}

// model state while generating and judging
type connState struct {
	dialed, closed, refused bool
	key                     int // -1 none
}

type regModel struct {
	owner map[int]int // key -> conn
	conns []connState
}

func newRegModel(n int) *regModel {
	m := &regModel{owner: map[int]int{}, conns: make([]connState, n)}
	for i := range m.conns {
		m.conns[i].key = -1
	}
	return m
}

func (m *regModel) usable(c int) bool {
	return m.conns[c].dialed && !m.conns[c].closed && !m.conns[c].refused
}

func genC11(t *rapid.T) c11Case {
	c := c11Case{Keys: rapid.IntRange(2, 4).Draw(t, "keys"), Conns: rapid.IntRange(2, 8).Draw(t, "conns")}
	if rapid.IntRange(0, 3).Draw(t, "more_conns") != 0 {
		c.Conns = rapid.IntRange(4, 8).Draw(t, "conns_many")
	}
	c.ZeroPhone = rapid.IntRange(0, 3).Draw(t, "zero_phone") == 0
	c.KeyPrefix = rapid.SampledFrom([]string{"", "", "", "00", "0", "dev-"}).Draw(t, "key_prefix")
	m := newRegModel(c.Conns)
	n := rapid.IntRange(10, 30).Draw(t, "steps")
	raced, burst := false, false
	everOwned := map[int]bool{}
	for len(c.Macros) < n {
		var undialed, fresh, joined []int
		for i := range m.conns {
			switch {
			case !m.conns[i].dialed:
				undialed = append(undialed, i)
			case m.usable(i) && m.conns[i].key < 0:
				fresh = append(fresh, i)
			case m.usable(i):
				joined = append(joined, i)
			}
		}
		choice := rapid.IntRange(0, 11).Draw(t, "choice")
		if len(fresh) == 0 && len(undialed) > 0 && choice > 1 && choice <= 4 {
			choice = 0 // nothing can say hello yet: dial instead
		}
		switch {
		case choice <= 1 && len(undialed) > 0:
			k := undialed[0]
			m.conns[k].dialed = true
			c.Macros = append(c.Macros, macro{Op: "dial", Conn: k})
		case choice <= 4 && len(fresh) > 0:
			cn := rapid.SampledFrom(fresh).Draw(t, "conn")
			key := rapid.IntRange(0, c.Keys-1).Draw(t, "key")
			// bias towards the interesting keys: one that is owned (refusal) or was owned and is free again (re-join)
			var ownedKeys, freedKeys []int
			for k := 0; k < c.Keys; k++ {
				if o, ok := m.owner[k]; ok && o >= 0 {
					ownedKeys = append(ownedKeys, k)
				} else if !ok && everOwned[k] {
					freedKeys = append(freedKeys, k)
				}
			}
			switch bias := rapid.IntRange(0, 9).Draw(t, "key_bias"); {
			case bias < 4 && len(ownedKeys) > 0:
				key = rapid.SampledFrom(ownedKeys).Draw(t, "owned_key")
			case bias < 8 && len(freedKeys) > 0:
				key = rapid.SampledFrom(freedKeys).Draw(t, "freed_key")
			}
			everOwned[key] = true
			c.Macros = append(c.Macros, macro{Op: "hello", Conn: cn, Key: key})
			if _, owned := m.owner[key]; owned {
				m.conns[cn].refused = true
			} else {
				m.owner[key] = cn
				m.conns[cn].key = key
			}
		case choice == 5 && len(joined) > 0:
			cn := rapid.SampledFrom(joined).Draw(t, "conn")
			c.Macros = append(c.Macros, macro{Op: "msg", Conn: cn, Phone: rapid.IntRange(0, c.Keys-1).Draw(t, "phone")})
		case choice <= 7 && len(joined)+len(fresh) > 0:
			pool := append(append([]int{}, joined...), joined...)
			pool = append(pool, fresh...)
			cn := rapid.SampledFrom(pool).Draw(t, "conn")
			c.Macros = append(c.Macros, macro{Op: "close", Conn: cn})
			m.conns[cn].closed = true
			if k := m.conns[cn].key; k >= 0 {
				delete(m.owner, k)
			}
		case choice <= 9:
			key := rapid.IntRange(0, c.Keys-1).Draw(t, "key")
			if o, ok := m.owner[key]; ok && o >= 0 && !burst && rapid.IntRange(0, 2).Draw(t, "burst") == 0 {
				// six commands at once for an online key: more than the connection's hand-over queue holds
				burst = true
				c.Macros = append(c.Macros, macro{Op: "send_burst", Key: key})
			} else {
				c.Macros = append(c.Macros, macro{Op: "send", Key: key})
			}
		case !raced && choice == 10 && len(fresh) >= 2:
			key := rapid.IntRange(0, c.Keys-1).Draw(t, "key")
			if _, owned := m.owner[key]; owned {
				continue
			}
			raced = true
			c.Macros = append(c.Macros, macro{Op: "race_hello", Conn: fresh[0], Conn2: fresh[1], Key: key}, macro{Op: "send", Key: key})
			// outcome unknown: both connections are taken out of the generated history afterwards
			m.conns[fresh[0]].closed, m.conns[fresh[1]].closed = true, true
			m.owner[key] = -2 // poisoned: no further use of this key
		case !raced && choice == 11 && len(joined) >= 1 && len(fresh) >= 1:
			a := joined[0]
			key := m.conns[a].key
			raced = true
			c.Macros = append(c.Macros, macro{Op: "race_close_hello", Conn: a, Conn2: fresh[0], Key: key}, macro{Op: "send", Key: key})
			m.conns[a].closed, m.conns[fresh[0]].closed = true, true
			m.owner[key] = -2
		default:
			if len(undialed) > 0 {
				k := undialed[0]
				m.conns[k].dialed = true
				c.Macros = append(c.Macros, macro{Op: "dial", Conn: k})
			} else {
				c.Macros = append(c.Macros, macro{Op: "send", Key: rapid.IntRange(0, c.Keys-1).Draw(t, "key")})
			}
		}
	}
	// drop sends to poisoned keys other than the probe directly after the race
	var out []macro
	poisoned := map[int]bool{}
	for i, mc := range c.Macros {
		if mc.Op == "send" && poisoned[mc.Key] && !(i > 0 && (c.Macros[i-1].Op == "race_hello" || c.Macros[i-1].Op == "race_close_hello")) {
			continue
		}
		if (mc.Op == "hello") && poisoned[mc.Key] {
			continue
		}
		out = append(out, mc)
		if mc.Op == "race_hello" || mc.Op == "race_close_hello" {
			poisoned[mc.Key] = true
		}
	}
	c.Macros = out
	return c
}

type c11Plan struct {
	sc     Scenario
	hello  map[int][]byte // macro index -> frame
	hello2 map[int][]byte
	msgs   map[int][]byte
	calls  map[int]int // macro index -> call id
}

func c11Compile(c c11Case) c11Plan {
	p := c11Plan{hello: map[int][]byte{}, hello2: map[int][]byte{}, msgs: map[int][]byte{}, calls: map[int]int{}}
	actors := c.Conns + 1
	steps := make([][]Step, actors) // last = platform
	serial := uint16(10)
	expectFrames := make([]int, c.Conns)
	m := newRegModel(c.Conns)
	for i, mc := range c.Macros {
		bar := fmt.Sprintf("b%d", i)
		for a := range steps {
			steps[a] = append(steps[a], Step{Op: "barrier", Barrier: bar, Parties: actors})
		}
		switch mc.Op {
		case "dial":
			steps[mc.Conn] = append(steps[mc.Conn], Step{Op: "dial"}, Step{Op: "respond", Rules: []Rule{{Behaviour: "answer"}}})
		case "hello":
			f := frame(keyIdentity(mc.Key), 0x0002, serial, nil)
			serial++
			p.hello[i] = f
			steps[mc.Conn] = append(steps[mc.Conn], Step{Op: "write", Hex: f})
			if _, owned := m.owner[mc.Key]; owned {
				m.conns[mc.Conn].refused = true
				steps[mc.Conn] = append(steps[mc.Conn], Step{Op: "wait_eof", DeadlineMs: 4000})
			} else {
				m.owner[mc.Key] = mc.Conn
				m.conns[mc.Conn].key = mc.Key
				expectFrames[mc.Conn]++
				steps[mc.Conn] = append(steps[mc.Conn], Step{Op: "wait_frames", N: expectFrames[mc.Conn], DeadlineMs: 4000})
			}
		case "msg":
			f := frame(keyIdentity(mc.Phone), 0x0200, serial, append(make([]byte, 22), bcdTime...))
			serial++
			p.msgs[i] = f
			expectFrames[mc.Conn]++
			steps[mc.Conn] = append(steps[mc.Conn], Step{Op: "write", Hex: f}, Step{Op: "wait_frames", N: expectFrames[mc.Conn], DeadlineMs: 4000})
		case "close":
			steps[mc.Conn] = append(steps[mc.Conn], Step{Op: "close", Mode: "fin"}, Step{Op: "pause", PauseUs: 40000})
			if k := m.conns[mc.Conn].key; k >= 0 {
				delete(m.owner, k)
			}
			m.conns[mc.Conn].closed = true
		case "send":
			id := i + 1
			p.calls[i] = id
			if o, ok := m.owner[mc.Key]; ok && o >= 0 {
				expectFrames[o]++
			}
			steps[actors-1] = append(steps[actors-1], Step{Op: "send", Key: keyIdentity(mc.Key).key(), Cmd: 0x8104, Body: []byte{byte(id), 0x5a}, TimeoutMs: 500, CallID: id})
		case "send_burst":
			p.sc.WriteHoldUs = 15000 // a slow write callback keeps the owner's writer busy while the commands queue up
			if o, ok := m.owner[mc.Key]; ok && o >= 0 {
				expectFrames[o] += 6
			}
			for b := 0; b < 6; b++ {
				id := 1000 + 10*i + b
				steps[actors-1] = append(steps[actors-1], Step{Op: "send", Key: keyIdentity(mc.Key).key(), Cmd: 0x8104, Body: []byte{byte(id >> 8), byte(id), 0x5b}, TimeoutMs: 2000, CallID: id, Async: true})
			}
			steps[actors-1] = append(steps[actors-1], Step{Op: "join_calls", DeadlineMs: 3000})
		case "race_hello":
			f1 := frame(keyIdentity(mc.Key), 0x0002, serial, nil)
			f2 := frame(keyIdentity(mc.Key), 0x0002, serial+1, nil)
			serial += 2
			p.hello[i], p.hello2[i] = f1, f2
			for _, x := range []struct {
				c int
				f []byte
			}{{mc.Conn, f1}, {mc.Conn2, f2}} {
				steps[x.c] = append(steps[x.c], Step{Op: "write", Hex: x.f}, Step{Op: "wait_frames", N: expectFrames[x.c] + 1, DeadlineMs: 1500})
			}
			m.conns[mc.Conn].closed, m.conns[mc.Conn2].closed = true, true
		case "race_close_hello":
			f := frame(keyIdentity(mc.Key), 0x0002, serial, nil)
			serial++
			p.hello[i] = f
			steps[mc.Conn] = append(steps[mc.Conn], Step{Op: "close", Mode: "fin"}, Step{Op: "pause", PauseUs: 60000})
			steps[mc.Conn2] = append(steps[mc.Conn2], Step{Op: "write", Hex: f}, Step{Op: "wait_frames", N: expectFrames[mc.Conn2] + 1, DeadlineMs: 1500})
			delete(m.owner, mc.Key)
			m.conns[mc.Conn].closed, m.conns[mc.Conn2].closed = true, true
		}
	}
	end := "end"
	for a := range steps {
		steps[a] = append(steps[a], Step{Op: "barrier", Barrier: end, Parties: actors})
		if a < c.Conns {
			steps[a] = append(steps[a], Step{Op: "pause", PauseUs: 20000}, Step{Op: "close", Mode: "fin"})
			p.sc.Actors = append(p.sc.Actors, Actor{Name: fmt.Sprintf("c%d", a), Kind: "terminal", Steps: steps[a]})
		} else {
			p.sc.Actors = append(p.sc.Actors, Actor{Name: "platform", Kind: "platform", Steps: steps[a]})
		}
	}
	return p
}

func checkC11(c c11Case, _ *kit.Collector) kit.Result {
	res := kit.Result{}
	c11Keys.zeroPhone, c11Keys.prefix = c.ZeroPhone, c.KeyPrefix
	p := c11Compile(c)
	p.sc.KeyPrefix = c.KeyPrefix
	h := runScenario(p.sc)
	if !childVerdict(h, &res) {
		return res
	}
	find := func(kind string, data []byte) []Event {
		var out []Event
		for _, e := range h.Events {
			if e.Kind == kind && bytes.Equal(e.Data, data) {
				out = append(out, e)
			}
		}
		return out
	}
	gotReply := func(actor string, reqFrame []byte) bool {
		f, _ := ref.Validate(reqFrame)
		for _, e := range h.Events {
			if e.Actor == actor && e.Kind == "recv" {
				if r, why := ref.Validate(e.Data); why == "" && r.ID == 0x8001 && len(r.Body) == 5 && ref.BE16(r.Body) == f.Serial {
					return true
				}
			}
		}
		return false
	}
	sawEOF := func(actor string) bool {
		for _, e := range h.Events {
			if e.Actor == actor && e.Kind == "eof" {
				return true
			}
		}
		return false
	}
	commandAt := func(callID int) []string {
		var at []string
		for _, e := range h.Events {
			if e.Kind == "recv" {
				if r, why := ref.Validate(e.Data); why == "" && r.ID == 0x8104 && bytes.Equal(r.Body, []byte{byte(callID), 0x5a}) {
					at = append(at, e.Actor)
				}
			}
		}
		return at
	}
	callResult := func(callID int) *Event {
		for i := range h.Events {
			if h.Events[i].Kind == "call_result" && h.Events[i].Call == callID {
				return &h.Events[i]
			}
		}
		return nil
	}
	for _, e := range h.Events {
		if e.Kind == "dial_err" {
			res.Err = fmt.Errorf("INFRA %s", e.Err)
			return res
		}
	}
	m := newRegModel(c.Conns)
	joinedKey := make([]int, c.Conns)
	for i := range joinedKey {
		joinedKey[i] = -1
	}
	refusedDup, rejoin, races := false, false, false
	bursts := false
	everOwned := map[int]bool{}
	for i, mc := range c.Macros {
		name := fmt.Sprintf("c%d", mc.Conn)
		switch mc.Op {
		case "dial":
			m.conns[mc.Conn].dialed = true
		case "hello":
			f := p.hello[i]
			joins := find("cb_join", f)
			if len(joins) != 1 {
				res.Err = kit.Fail("step %d: hello of %s with key %d was announced to the join callback %d times", i, name, mc.Key, len(joins))
				return res
			}
			if _, owned := m.owner[mc.Key]; owned {
				refusedDup = true
				m.conns[mc.Conn].refused = true
				if joins[0].Err == "" || gotReply(name, f) {
					res.Err = kit.Fail("step %d: %s presented key %d which connection c%d owns, but was not refused (join err %q, reply %v)", i, name, mc.Key, m.owner[mc.Key], joins[0].Err, gotReply(name, f))
					return res
				}
				if !sawEOF(name) {
					res.Err = fmt.Errorf("SOFT step %d: refused connection %s was not closed by the server", i, name)
					return res
				}
			} else {
				if joins[0].Err != "" || joins[0].Key != keyIdentity(mc.Key).key() {
					res.Err = kit.Fail("step %d: %s presented the free key %d but the join callback got key %q err %q", i, name, mc.Key, joins[0].Key, joins[0].Err)
					return res
				}
				if !gotReply(name, f) {
					res.Err = fmt.Errorf("SOFT step %d: %s joined with free key %d but its first message was not answered", i, name, mc.Key)
					return res
				}
				if everOwned[mc.Key] {
					rejoin = true
				}
				everOwned[mc.Key] = true
				m.owner[mc.Key] = mc.Conn
				m.conns[mc.Conn].key = mc.Key
				joinedKey[mc.Conn] = mc.Key
			}
		case "msg":
			if !gotReply(name, p.msgs[i]) {
				res.Err = fmt.Errorf("SOFT step %d: message of joined %s (phone of key %d) was not answered", i, name, mc.Phone)
				return res
			}
			if n := len(find("cb_join", p.msgs[i])); n != 0 {
				res.Err = kit.Fail("step %d: a later message of %s triggered the join callback again", i, name)
				return res
			}
		case "close":
			if k := m.conns[mc.Conn].key; k >= 0 {
				delete(m.owner, k)
			}
			m.conns[mc.Conn].closed = true
		case "send":
			id := p.calls[i]
			r := callResult(id)
			if r == nil {
				res.Err = fmt.Errorf("SOFT step %d: SendActiveMessage for key %d never returned", i, mc.Key)
				return res
			}
			at := commandAt(id)
			o, owned := m.owner[mc.Key]
			if owned && o == -2 { // probe after a race: judged below
				continue
			}
			if owned {
				if len(at) != 1 || at[0] != fmt.Sprintf("c%d", o) {
					res.Err = kit.Fail("step %d: command for key %d (owned by c%d) was received by %v", i, mc.Key, o, at)
					return res
				}
				if !r.Flag {
					res.Err = fmt.Errorf("SOFT step %d: command for key %d owned by c%d returned %q although the owner answered", i, mc.Key, o, r.Err)
					return res
				}
			} else {
				if len(at) != 0 {
					res.Err = kit.Fail("step %d: key %d is not online but its command was received by %v", i, mc.Key, at)
					return res
				}
				if r.Note != "not_exist" {
					res.Err = kit.Fail("step %d: command for the offline key %d returned %q, want the not-exist error", i, mc.Key, r.Err)
					return res
				}
				if r.DurUs > 1_000_000 {
					res.Err = fmt.Errorf("SOFT step %d: not-exist error took %d ms", i, r.DurUs/1000)
					return res
				}
			}
		case "send_burst":
			bursts = true
			for b := 0; b < 6; b++ {
				id := 1000 + 10*i + b
				var r *Event
				for k := range h.Events {
					if h.Events[k].Kind == "call_result" && h.Events[k].Call == id {
						r = &h.Events[k]
					}
				}
				if r == nil {
					res.Err = fmt.Errorf("SOFT step %d: command %d of a burst of six for the online key %d never returned", i, b, mc.Key)
					return res
				}
				if r.Note == "not_exist" {
					res.Err = kit.Fail("step %d: key %d is online (owned by c%d) but command %d of a burst of six returned the not-exist error", i, mc.Key, m.owner[mc.Key], b)
					return res
				}
			}
		case "race_hello", "race_close_hello":
			races = true
			var contenders []struct {
				name string
				f    []byte
			}
			if mc.Op == "race_hello" {
				contenders = append(contenders, struct {
					name string
					f    []byte
				}{fmt.Sprintf("c%d", mc.Conn), p.hello[i]}, struct {
					name string
					f    []byte
				}{fmt.Sprintf("c%d", mc.Conn2), p.hello2[i]})
			} else {
				contenders = append(contenders, struct {
					name string
					f    []byte
				}{fmt.Sprintf("c%d", mc.Conn2), p.hello[i]})
			}
			winners := 0
			winner := ""
			for _, ct := range contenders {
				joins := find("cb_join", ct.f)
				if len(joins) != 1 {
					res.Err = kit.Fail("step %d (%s): hello of %s announced %d times", i, mc.Op, ct.name, len(joins))
					return res
				}
				won := joins[0].Err == ""
				if won != gotReply(ct.name, ct.f) {
					res.Err = fmt.Errorf("SOFT step %d (%s): %s join err %q but reply received = %v", i, mc.Op, ct.name, joins[0].Err, gotReply(ct.name, ct.f))
					return res
				}
				if won {
					winners++
					winner = ct.name
				}
			}
			if mc.Op == "race_hello" && winners != 1 {
				res.Err = kit.Fail("step %d: two connections presented the free key %d at the same time and %d of them were admitted", i, mc.Key, winners)
				return res
			}
			m.owner[mc.Key] = -2
			// the probe that follows must agree with the outcome
			if i+1 < len(c.Macros) && c.Macros[i+1].Op == "send" {
				id := p.calls[i+1]
				at := commandAt(id)
				r := callResult(id)
				if r == nil {
					res.Err = fmt.Errorf("SOFT step %d: probe after the race never returned", i+1)
					return res
				}
				if winners == 1 {
					if len(at) != 1 || at[0] != winner {
						res.Err = kit.Fail("step %d: after the race %s owns key %d but the command was received by %v (result %q)", i+1, winner, mc.Key, at, r.Err)
						return res
					}
				} else if len(at) != 0 {
					res.Err = kit.Fail("step %d: after the race nobody owns key %d but the command was received by %v (result %q)", i+1, mc.Key, at, r.Err)
					return res
				} else if r.Note != "not_exist" {
					// the leaving owner may still be registered for an instant: timing, not a hard violation
					res.Err = fmt.Errorf("SOFT step %d: after the race nobody owns key %d but the probe returned %q", i+1, mc.Key, r.Err)
					return res
				}
			}
			m.conns[mc.Conn].closed, m.conns[mc.Conn2].closed = true, true
		}
	}
	// per connection: a joined connection is announced to the leave callback exactly once with its key
	for _, e := range h.Events {
		if e.Kind == "settle_timeout" {
			res.Err = fmt.Errorf("SOFT %s", e.Note)
			return res
		}
	}
	for k := 0; k < c.Keys; k++ {
		key := keyIdentity(k).key()
		joins, leaves := 0, 0
		for _, e := range h.Events {
			if e.Kind == "cb_join" && e.Key == key && e.Err == "" {
				joins++
			}
			if e.Kind == "cb_leave" && e.Key == key {
				leaves++
			}
		}
		if joins != leaves {
			res.Err = kit.Fail("key %d: %d successful joins but %d leave callbacks with that key", k, joins, leaves)
			return res
		}
	}
	// leave follows join on the same server-side connection
	joinConn := map[int]string{}
	for _, e := range h.Events {
		if e.Kind == "cb_join" && e.Err == "" {
			if _, dup := joinConn[e.Conn]; dup {
				res.Err = kit.Fail("server connection %d joined twice", e.Conn)
				return res
			}
			joinConn[e.Conn] = e.Key
		}
		if e.Kind == "cb_leave" && e.Key != "" {
			if joinConn[e.Conn] != e.Key {
				res.Err = kit.Fail("server connection %d left with key %q but joined with %q", e.Conn, e.Key, joinConn[e.Conn])
				return res
			}
		}
	}
	lab := func(b bool, s string) {
		if b {
			res.Labels = append(res.Labels, s)
		}
	}
	lab(refusedDup, "refused_duplicate")
	lab(rejoin, "rejoin_after_leave")
	lab(races, "concurrent_group")
	lab(bursts, "burst_of_six_commands")
	res.Labels = append(res.Labels, fmt.Sprintf("conns_%d", c.Conns))
	res.NT = refusedDup && rejoin
	return res
}

func TestC11(t *testing.T) {
	kit.Run(t, kit.Prop[c11Case]{ID: "C11", Part: "TestC11", Gen: genC11, Check: softRetry(checkC11)})
}

var _ = kit.Hex{}
