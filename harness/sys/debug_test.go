package sys

import (
	"encoding/json"
	"fmt"
	"os"
	"testing"
)

// TestDebugScenario runs the scenario in $VERIF_DEBUG_SCENARIO (JSON file) and prints the history (development aid).
func TestDebugScenario(t *testing.T) {
	p := os.Getenv("VERIF_DEBUG_SCENARIO")
	if p == "" {
		t.Skip()
	}
	b, _ := os.ReadFile(p)
	var sc Scenario
	if err := json.Unmarshal(b, &sc); err != nil {
		t.Fatal(err)
	}
	h := runScenario(sc)
	for _, e := range h.Events {
		fmt.Fprintf(os.Stderr, "%4d %8dus %-9s %-14s conn=%d key=%s cmd=%04x ser=%d pseq=%d call=%d flag=%v err=%q note=%q data=%x data2=%x\n", e.Seq, e.TUs, e.Actor, e.Kind, e.Conn, e.Key, e.Cmd, e.Ser, e.PSeq, e.Call, e.Flag, e.Err, e.Note, []byte(e.Data), []byte(e.Data2))
	}
	fmt.Fprintln(os.Stderr, "exit:", h.Exit, h.Stderr)
}
