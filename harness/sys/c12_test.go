package sys

import (
	"bytes"
	"fmt"
	"testing"

	"verif/harness/kit"
	"verif/harness/ref"

	"pgregory.net/rapid"
)

// C12: platform commands are matched with their own responses.

type call struct {
	ID        int    `json:"id"`
	Terminal  int    `json:"terminal"`
	Cmd       uint16 `json:"cmd"`
	TimeoutMs int    `json:"timeout_ms"`
	Behaviour string `json:"behaviour"` // answer | delay | dup | wrong_serial | ignore | hold | late; timeout_ms 0 = the connection's default (3 s)
	DelayMs   int    `json:"delay_ms,omitempty"`
}

type c12Case struct {
	Terminals []identity `json:"terminals"`
	Calls     []call     `json:"calls"`
	Plain     []int      `json:"plain_requests_per_terminal"` // heartbeats/locations sent while commands are outstanding
	Reverse   bool       `json:"release_held_in_reverse"`
	Preload   int        `json:"preload_heartbeats,omitempty"`                          // heartbeats answered on terminal 0 before the commands (serial wrap)
	Intruder  bool       `json:"second_connection_presents_terminal0s_phone,omitempty"` // refused just before the commands are issued; terminal 0 stays commandable
}

// 0x8300, 0x8105, 0x8202: commands without an entry in the handler table (answered with the general response all the same)
var commandIDs = []uint16{0x8103, 0x8104, 0x8801, 0x9101, 0x9102, 0x9205, 0x9206, 0x9207, 0x8300, 0x8105, 0x8202}

func (c call) body() []byte {
	return []byte{0xc0 | byte(c.ID>>4), byte(c.ID<<4) | 0x0a, byte(c.ID), 0x11, 0x22}
}

func genC12(t *rapid.T) c12Case {
	c := c12Case{Reverse: rapid.Bool().Draw(t, "reverse"), Intruder: rapid.IntRange(0, 3).Draw(t, "intruder") == 0}
	n := rapid.IntRange(1, 3).Draw(t, "terminals")
	for i := 0; i < n; i++ {
		c.Terminals = append(c.Terminals, genIdentity(t, i, fmt.Sprintf("id%d", i)))
		c.Plain = append(c.Plain, rapid.IntRange(0, 4).Draw(t, "plain"))
	}
	nc := rapid.IntRange(1, 8).Draw(t, "calls")
	perTerm := map[int]int{}
	defaultUsed := false
	for i := 0; i < nc; i++ {
		k := call{ID: i + 1, Terminal: rapid.IntRange(0, n-1).Draw(t, "target"), Cmd: rapid.SampledFrom(commandIDs).Draw(t, "cmd")}
		perTerm[k.Terminal]++
		k.Behaviour = rapid.SampledFrom([]string{"answer", "answer", "glued", "delay", "dup", "wrong_serial", "ignore", "hold", "hold", "late"}).Draw(t, "behaviour")
		switch k.Behaviour {
		case "answer", "dup", "glued":
			k.TimeoutMs = rapid.SampledFrom([]int{300, 600, 1500}).Draw(t, "timeout")
		case "delay":
			k.TimeoutMs = rapid.SampledFrom([]int{600, 1200}).Draw(t, "timeout")
			k.DelayMs = rapid.IntRange(5, k.TimeoutMs/4).Draw(t, "delay")
		case "hold":
			k.TimeoutMs = 2500
		case "late": // answered well after the timeout fired: must reach nobody
			k.TimeoutMs = rapid.SampledFrom([]int{40, 100}).Draw(t, "timeout")
			k.DelayMs = k.TimeoutMs + 250
		default:
			k.TimeoutMs = rapid.SampledFrom([]int{40, 100, 250}).Draw(t, "timeout")
		}
		if !defaultUsed && rapid.IntRange(0, 11).Draw(t, "default_timeout") == 0 {
			// OverTimeDuration 0: the default applies. An answer after 1.1 .. 2.3 s is in time, silence ends in a timeout error not before 3 s
			defaultUsed = true
			k.TimeoutMs, k.DelayMs = 0, 0
			if k.Behaviour = rapid.SampledFrom([]string{"delay", "delay", "ignore"}).Draw(t, "default_behaviour"); k.Behaviour == "delay" {
				k.DelayMs = rapid.IntRange(1100, 2300).Draw(t, "default_delay")
			}
		}
		c.Calls = append(c.Calls, k)
	}
	if nc >= 5 && rapid.IntRange(0, 3).Draw(t, "timeout_burst") == 0 {
		// a burst: every command goes to terminal 0, is ignored and times out at the same instant
		for i := range c.Calls {
			c.Calls[i].Terminal, c.Calls[i].Behaviour, c.Calls[i].TimeoutMs, c.Calls[i].DelayMs = 0, "ignore", 120, 0
			defaultUsed = false
		}
	}
	return c
}

func c12Scenario(c c12Case) Scenario {
	sc := Scenario{}
	parties := len(c.Terminals) + 1
	if c.Intruder {
		parties++
		sc.Actors = append(sc.Actors, Actor{Name: "intruder", Kind: "terminal", Steps: []Step{{Op: "dial"}, {Op: "barrier", Barrier: "joined", Parties: parties},
			{Op: "write", Hex: frame(c.Terminals[0], 0x0002, 0x4000, nil)}, {Op: "wait_eof", DeadlineMs: 3000}, {Op: "close", Mode: "fin"},
			{Op: "barrier", Barrier: "calls_done", Parties: parties}}})
	}
	for i, id := range c.Terminals {
		var rules []Rule
		held := 0
		for _, k := range c.Calls {
			if k.Terminal != i {
				continue
			}
			b := k.Behaviour
			if b == "late" {
				b = "delay"
			}
			if b == "glued" {
				b = "answer_glued"
			}
			rules = append(rules, Rule{Cmd: k.Cmd, Prefix: k.body()[:3], Behaviour: b, DelayMs: k.DelayMs})
			if k.Behaviour == "hold" {
				held++
			}
		}
		steps := []Step{{Op: "dial"}, {Op: "respond", Rules: rules},
			{Op: "write", Hex: frame(id, 0x0002, 1, nil)}, {Op: "wait_frames", N: 1, DeadlineMs: 5000}}
		if i == 0 && c.Preload > 0 {
			var chunk []byte
			for k := 0; k < c.Preload; k++ {
				chunk = append(chunk, frame(id, 0x0002, uint16(2000+k), nil)...)
				if len(chunk) > 900 || k == c.Preload-1 {
					steps = append(steps, Step{Op: "write", Hex: chunk})
					chunk = nil
					if k%3000 < 60 {
						steps = append(steps, Step{Op: "wait_frames", N: k + 2, DeadlineMs: 20000})
					}
				}
			}
			steps = append(steps, Step{Op: "wait_frames", N: c.Preload + 1, DeadlineMs: 30000})
		}
		steps = append(steps, Step{Op: "barrier", Barrier: "joined", Parties: parties})
		for p := 0; p < c.Plain[i]; p++ {
			steps = append(steps, Step{Op: "pause", PauseUs: 3000}, Step{Op: "write", Hex: frame(id, 0x0200, uint16(100+p), append(make([]byte, 22), bcdTime...))})
		}
		if held > 0 {
			mode := ""
			if c.Reverse {
				mode = "reverse"
			}
			steps = append(steps, Step{Op: "wait_held", N: held, DeadlineMs: 2000}, Step{Op: "release", Mode: mode})
		}
		steps = append(steps, Step{Op: "barrier", Barrier: "calls_done", Parties: parties}, Step{Op: "pause", PauseUs: 60000}, // quiet: whatever the server owes arrives now
			Step{Op: "write", Hex: frame(id, 0x0002, sentinelSerial, nil)}, Step{Op: "wait_frames", N: 1 << 30, DeadlineMs: 300}, Step{Op: "close", Mode: "fin"})
		sc.Actors = append(sc.Actors, Actor{Name: fmt.Sprintf("t%d", i), Kind: "terminal", Steps: steps})
	}
	ps := []Step{{Op: "barrier", Barrier: "joined", Parties: parties}}
	if c.Intruder {
		ps = append(ps, Step{Op: "pause", PauseUs: 40000}) // the refusal (and whatever the refused connection's teardown does) comes first
	}
	defaultTimeout := false
	for _, k := range c.Calls {
		defaultTimeout = defaultTimeout || k.TimeoutMs == 0
		ps = append(ps, Step{Op: "send", Key: c.Terminals[k.Terminal].key(), Cmd: k.Cmd, Body: k.body(), TimeoutMs: k.TimeoutMs, Async: true, CallID: k.ID})
	}
	ps = append(ps, Step{Op: "join_calls", DeadlineMs: 4000 + 2500*btoi(defaultTimeout)}, Step{Op: "barrier", Barrier: "calls_done", Parties: parties})
	sc.Actors = append(sc.Actors, Actor{Name: "platform", Kind: "platform", Steps: ps})
	return sc
}

// serverFrames returns the frames a terminal received, decoded, in order.
func serverFrames(h History, actor string) (frames []*ref.Frame, raw [][]byte, bad string) {
	for _, e := range h.Events {
		if e.Actor == actor && e.Kind == "recv" {
			f, why := ref.Validate(e.Data)
			if why != "" {
				return nil, nil, fmt.Sprintf("%s received a malformed frame (%s): %x", actor, why, []byte(e.Data))
			}
			frames = append(frames, f)
			raw = append(raw, e.Data)
		}
	}
	return frames, raw, ""
}

func checkC12(c c12Case, _ *kit.Collector) kit.Result {
	res := kit.Result{}
	h := runScenario(c12Scenario(c))
	if !childVerdict(h, &res) {
		return res
	}
	for _, e := range h.Events {
		if e.Kind == "dial_err" {
			res.Err = fmt.Errorf("INFRA %s", e.Err)
			return res
		}
	}
	outOfOrder, concurrent := false, false
	perTerm := map[int]int{}
	heldPer := map[int]int{}
	for _, k := range c.Calls {
		perTerm[k.Terminal]++
		if k.Behaviour == "hold" {
			heldPer[k.Terminal]++
		}
	}
	for t, n := range perTerm {
		if n >= 2 {
			concurrent = true
		}
		if heldPer[t] >= 2 && c.Reverse {
			outOfOrder = true
		}
	}
	for i, id := range c.Terminals {
		name := fmt.Sprintf("t%d", i)
		frames, _, bad := serverFrames(h, name)
		if bad != "" {
			res.Err = kit.Fail("%s", bad)
			return res
		}
		// every frame the server wrote on this connection: consecutive platform serials from 0, right addressing
		for k, f := range frames {
			if int(f.Serial) != k&0xffff {
				res.Err = kit.Fail("%s: frame %d from the server (id %#04x) carries platform serial %d, want %d", name, k, f.ID, f.Serial, k&0xffff)
				return res
			}
			if !bytes.Equal(f.PhoneBCD, id.bcd()) || f.Version2019 != id.V2019 {
				res.Err = kit.Fail("%s: frame %d (id %#04x) addressed to %x", name, k, f.ID, f.PhoneBCD)
				return res
			}
		}
		// plain traffic is still answered: one 0x8001 per heartbeat/location
		wantReplies := 2 + c.Plain[i]
		for _, k := range c.Calls {
			if k.Terminal == i && k.Behaviour == "glued" {
				wantReplies++ // the heartbeat that left the terminal glued to the response
			}
		}
		if i == 0 {
			wantReplies += c.Preload
		}
		got := 0
		for _, f := range frames {
			if f.ID == 0x8001 {
				got++
			}
		}
		// a heartbeat that left glued to a response is answered without waiting for later traffic: its general response
		// reaches the terminal before the terminal's closing heartbeat is sent (tens of milliseconds later)
		var sentinelSeq int64 = -1
		for _, e := range h.Events {
			if e.Actor == name && e.Kind == "sent" {
				if f, why := ref.Validate(e.Data); why == "" && f.ID == 0x0002 && f.Serial == sentinelSerial {
					sentinelSeq = e.Seq
				}
			}
		}
		for _, e := range h.Events {
			if e.Actor != name || e.Kind != "sent" {
				continue
			}
			frs, _ := ref.SplitFrames(e.Data)
			if len(frs) != 2 {
				continue
			}
			hbf, why := ref.Validate(frs[0])
			if why != "" || hbf.ID != 0x0002 {
				continue
			}
			var at int64 = -1
			for _, r := range h.Events {
				if r.Actor == name && r.Kind == "recv" {
					if rf, w := ref.Validate(r.Data); w == "" && rf.ID == 0x8001 && len(rf.Body) == 5 && ref.BE16(rf.Body) == hbf.Serial && ref.BE16(rf.Body[2:]) == 0x0002 {
						at = r.Seq
					}
				}
			}
			if sentinelSeq >= 0 && (at < 0 || at > sentinelSeq) {
				res.Err = fmt.Errorf("SOFT %s: the heartbeat (serial %d) sent in one write with a command response was not answered until the terminal sent its next message", name, hbf.Serial)
				return res
			}
		}
		if got != wantReplies {
			res.Err = kit.Fail("%s: %d general responses for %d plain requests sent around the commands", name, got, wantReplies)
			return res
		}
	}
	for _, k := range c.Calls {
		name := fmt.Sprintf("t%d", k.Terminal)
		var results []Event
		for _, e := range h.Events {
			if e.Kind == "call_result" && e.Call == k.ID {
				results = append(results, e)
			}
		}
		if len(results) != 1 {
			res.Err = fmt.Errorf("SOFT call %d (%#04x to %s, timeout %d ms, terminal behaviour %s) returned %d times", k.ID, k.Cmd, name, k.TimeoutMs, k.Behaviour, len(results))
			return res
		}
		r := results[0]
		// the command frame: exactly once, on the right socket only
		var cmdSerial = -1
		for ti := range c.Terminals {
			frames, _, _ := serverFrames(h, fmt.Sprintf("t%d", ti))
			n := 0
			for _, f := range frames {
				if f.ID == k.Cmd && bytes.Equal(f.Body, k.body()) {
					n++
					cmdSerial = int(f.Serial)
				}
			}
			want := 0
			if ti == k.Terminal {
				want = 1
			}
			if n != want {
				res.Err = kit.Fail("call %d: command %#04x appeared %d times on terminal t%d's socket, want %d", k.ID, k.Cmd, n, ti, want)
				return res
			}
		}
		// what the terminal answered for this serial
		var answers [][]byte
		for _, e := range h.Events {
			if e.Actor == name && e.Kind == "sent" {
				frs, _ := ref.SplitFrames(e.Data) // one write may carry the response and a heartbeat
				for _, fr := range frs {
					if f, why := ref.Validate(fr); why == "" && len(f.Body) >= 2 && int(ref.BE16(f.Body)) == cmdSerial && f.ID != 0x0002 && f.ID != 0x0200 {
						answers = append(answers, fr)
					}
				}
			}
		}
		dur := r.DurUs / 1000
		if k.TimeoutMs == 0 {
			k.TimeoutMs = 3000
			res.Labels = append(res.Labels, "default_timeout_"+k.Behaviour)
		}
		switch k.Behaviour {
		case "answer", "delay", "dup", "hold", "glued":
			if r.Err != "" || !r.Flag {
				// timing-dependent (the response raced the timer only if the machine stalled): soft evidence, re-run
				res.Err = fmt.Errorf("SOFT call %d (%#04x, timeout %d ms): the terminal answered serial %d in time (%s) but the call returned error %q after %d ms", k.ID, k.Cmd, k.TimeoutMs, cmdSerial, k.Behaviour, r.Err, dur)
				return res
			}
			if int(r.PSeq) != cmdSerial {
				res.Err = kit.Fail("call %d: returned message has PlatformSeq %d, the command was written with serial %d", k.ID, r.PSeq, cmdSerial)
				return res
			}
			match := false
			for _, a := range answers {
				match = match || bytes.Equal(a, r.Data2)
			}
			if !match {
				res.Err = kit.Fail("call %d (serial %d): returned TerminalData %x is not a response this terminal sent for that serial %x - another call's response?", k.ID, cmdSerial, []byte(r.Data2), answers)
				return res
			}
		case "wrong_serial", "ignore", "late":
			if k.Behaviour == "late" && r.Err == "" && r.Flag && int(r.PSeq) == cmdSerial {
				// the answer was meant to come 250 ms after the timeout; if the machine stalled the timer it may legitimately win
				res.Err = fmt.Errorf("SOFT call %d: the late answer (timeout %d ms + 250 ms) was delivered instead of the timeout after %d ms", k.ID, k.TimeoutMs, dur)
				return res
			}
			if r.Note != "overtime" {
				res.Err = kit.Fail("call %d (%#04x, timeout %d ms, terminal behaviour %s): want a timeout error, got err=%q response=%x", k.ID, k.Cmd, k.TimeoutMs, k.Behaviour, r.Err, []byte(r.Data2))
				return res
			}
			if dur < int64(k.TimeoutMs)-5 {
				res.Err = kit.Fail("call %d: timeout error after %d ms, configured %d ms", k.ID, dur, k.TimeoutMs)
				return res
			}
			if dur > int64(k.TimeoutMs)+3000 {
				res.Err = fmt.Errorf("SOFT call %d: timeout reported after %d ms, configured %d ms", k.ID, dur, k.TimeoutMs)
				return res
			}
		}
		res.Labels = append(res.Labels, "behaviour_"+k.Behaviour, fmt.Sprintf("cmd_%04x", k.Cmd))
	}
	for _, e := range h.Events {
		if e.Kind == "calls_stranded" || e.Kind == "call_stranded" {
			res.Err = fmt.Errorf("SOFT %s", e.Note)
			return res
		}
	}
	if concurrent {
		res.Labels = append(res.Labels, "concurrent_calls_one_terminal")
	}
	for _, n := range perTerm {
		if n >= 5 {
			res.Labels = append(res.Labels, "calls>=5_on_one_terminal")
		}
	}
	if outOfOrder {
		res.Labels = append(res.Labels, "responses_out_of_order")
	}
	if c.Intruder {
		res.Labels = append(res.Labels, "refused_duplicate_connection_before_the_commands")
	}
	res.Labels = dedup(append(res.Labels, fmt.Sprintf("terminals_%d", len(c.Terminals))))
	res.NT = concurrent && (outOfOrder || len(c.Calls) >= 3)
	return res
}

func TestC12(t *testing.T) {
	kit.Run(t, kit.Prop[c12Case]{ID: "C12", Part: "TestC12", Gen: genC12, Check: softRetry(checkC12)})
}

var _ = kit.Hex{}

// TestC12Wrap: the outstanding commands' serials straddle the 16-bit wrap (65 533 replies first), both tiers.
func TestC12Wrap(t *testing.T) {
	kit.Enum(t, "C12", "TestC12Wrap", "TestC12", func(col *kit.Collector) (any, error) {
		c := c12Case{Terminals: []identity{{Digits: "13800131000"}}, Plain: []int{1}, Reverse: true, Preload: 65533}
		for i, b := range []string{"hold", "answer", "hold", "ignore", "hold", "dup"} {
			k := call{ID: i + 1, Terminal: 0, Cmd: commandIDs[i%len(commandIDs)], Behaviour: b, TimeoutMs: 2500}
			if b == "ignore" {
				k.TimeoutMs = 100
			}
			c.Calls = append(c.Calls, k)
		}
		check := softRetry(checkC12)
		res := check(c, col)
		res.NT = true
		res.Labels = append(res.Labels, "serial_wrap")
		col.RecordHash(1, res, func() any { return map[string]any{"preload": c.Preload, "calls": c.Calls} })
		col.RecordHash(2, kit.Result{NT: true, Labels: []string{"serial_wrap"}}, nil)
		if res.Err != nil {
			return c, res.Err
		}
		return nil, nil
	})
}
