package sys

import (
	"fmt"
	"strings"
	"testing"

	"verif/harness/kit"

	"pgregory.net/rapid"
)

// C18: connection goroutines are free of data races. The conversation, command and disconnect scenarios of
// C06/C12/C13 run in a child built with -race; a report naming a repository frame is a violation.

type c18Case struct {
	Kind       string     `json:"kind"` // c06 | c12 | c13 | resend | join_send (c06 conversations while the join callback dispatches commands to the new key)
	JoinHoldUs int        `json:"join_callback_hold_us,omitempty"`
	Greet      int        `json:"commands_from_join_callback,omitempty"`
	C06        *c06Case   `json:"c06,omitempty"`
	C12        *c12Case   `json:"c12,omitempty"`
	Stall      *stallCase `json:"stall,omitempty"`
	C13        *c13Case   `json:"c13,omitempty"`
}

func genC18(t *rapid.T) c18Case {
	switch rapid.SampledFrom([]string{"c06", "c12", "c13", "c13", "resend", "join_send", "stall"}).Draw(t, "kind") {
	case "stall":
		c := genStall(t, false)
		c.BigBytes = 6 << 20
		return c18Case{Kind: "stall", Stall: &c}
	case "join_send":
		c := genC06(t)
		return c18Case{Kind: "join_send", C06: &c, Greet: rapid.IntRange(0, 2).Draw(t, "greet"), JoinHoldUs: rapid.SampledFrom([]int{0, 500, 4000}).Draw(t, "join_hold")}
	case "resend":
		// the caller keeps one ActiveMessage value and sends it again after each (early) answer
		c := c12Case{Terminals: []identity{genIdentity(t, 0, "id0")}, Plain: []int{rapid.IntRange(0, 2).Draw(t, "plain")}}
		n := rapid.IntRange(2, 5).Draw(t, "resends")
		for i := 0; i < n; i++ {
			c.Calls = append(c.Calls, call{ID: i + 1, Terminal: 0, Cmd: 0x8104, Behaviour: "answer", TimeoutMs: rapid.SampledFrom([]int{150, 400}).Draw(t, "timeout")})
		}
		return c18Case{Kind: "resend", C12: &c}
	case "c06":
		c := genC06(t)
		return c18Case{Kind: "c06", C06: &c}
	case "c12":
		c := genC12(t)
		return c18Case{Kind: "c12", C12: &c}
	default:
		c := genC13(t)
		if rapid.IntRange(0, 2).Draw(t, "dup_key_held") == 0 {
			// a duplicate-key join that is held in the read callback while commands are dispatched to the key's owner:
			// the registry, the owner's writer and the newcomer's reader all touch the owner's session at once
			c.Fault, c.ReadHold, c.WriteHold = "duplicate_key", 20000, 0
			c.Q = 6
			c.TimeoutMs, c.Stagger = nil, nil
			for i := 0; i < c.Q; i++ {
				// spread the commands over both refusals (each is held ~20 ms in the read callback)
				c.TimeoutMs = append(c.TimeoutMs, 400)
				c.Stagger = append(c.Stagger, rapid.SampledFrom([]int{500, 3000, 8000, 12000}).Draw(t, "stagger2"))
			}
		}
		return c18Case{Kind: "c13", C13: &c}
	}
}

func checkC18(c c18Case, _ *kit.Collector) kit.Result {
	res := kit.Result{Labels: []string{"scenario_" + c.Kind}}
	var sc Scenario
	switch c.Kind {
	case "c06", "join_send":
		sc = Scenario{Handlers: c.C06.Handlers, ReadHoldUs: c.C06.HoldUs, OnJoinSend: c.Greet}
		if c.Kind == "join_send" {
			sc.JoinHoldUs = c.JoinHoldUs
		}
		for i, t := range c.C06.Terminals {
			steps, _ := convSteps(t, true)
			sc.Actors = append(sc.Actors, Actor{Name: fmt.Sprintf("t%d", i), Kind: "terminal", Steps: steps})
		}
		res.NT = len(c.C06.Terminals) >= 1
		if c.Kind == "join_send" {
			// independent dispatchers: one per terminal, started before the terminals dial, each keeps trying to send a
			// command to its terminal's key until the key is online - the command reaches the new connection's writer
			// while its reader is still inside the join
			var ps []Step
			for i, t := range c.C06.Terminals {
				ps = append(ps, Step{Op: "send_when_online", Key: t.ID.key(), Cmd: 0x8104, TimeoutMs: 100, Async: true, CallID: 900 + i, DeadlineMs: 3000, PauseUs: 100})
			}
			ps = append(ps, Step{Op: "join_calls", DeadlineMs: 4000})
			sc.Actors = append([]Actor{{Name: "dispatcher", Kind: "platform", Steps: ps}}, sc.Actors...)
		}
	case "c12":
		sc = c12Scenario(*c.C12)
		res.NT = true
	case "stall":
		sc = stallScenario(*c.Stall)
		res.NT = true
	case "resend":
		sc = c12Scenario(*c.C12)
		for ai := range sc.Actors {
			if sc.Actors[ai].Kind != "platform" {
				continue
			}
			for si := range sc.Actors[ai].Steps {
				if sc.Actors[ai].Steps[si].Op == "send" {
					sc.Actors[ai].Steps[si].Async = false // one after the other: the previous call has returned
					sc.Actors[ai].Steps[si].ReuseMsg = true
					sc.Actors[ai].Steps[si].Body = []byte{0xc0, 0x1a, 0x01, 0x11, 0x22}
				}
			}
		}
		res.NT = true
	default:
		sc = c13Scenario(*c.C13)
		res.NT = c.C13.Q >= 1
		res.Labels = append(res.Labels, "fault_"+c.C13.Fault)
	}
	// the harness's recorder (one mutex, one atomic counter) would order the library's goroutines through the
	// callbacks and hide races from the detector: under C18 the callbacks only sleep, they record nothing
	sc.Silent = true
	h := runScenario(sc)
	if h.Exit == "infra" || h.Exit == "timeout" {
		res.Excluded = "infrastructure"
		return res
	}
	if h.Exit == "panic" && !strings.Contains(h.Stderr, "DATA RACE") && !strings.Contains(h.Stderr, "concurrent map") {
		// a crash is C10/C13's finding; C18 only judges race reports
		res.Labels = append(res.Labels, "child_crashed_without_race_report")
		return res
	}
	races := h.Races
	if h.Exit == "panic" {
		races = append(races, parseRaces(h.Stderr)...)
		if strings.Contains(h.Stderr, "concurrent map") {
			races = append(races, "fatal error: concurrent map access\n"+h.Stderr)
		}
	}
	var unknown []string
	for _, r := range races {
		key := "C18-race " + raceKey(r)
		if kit.Known(key) {
			res.Stripped = append(res.Stripped, key)
			continue
		}
		unknown = append(unknown, key+"\n"+r)
	}
	if len(unknown) > 0 {
		if len(unknown[0]) > 3500 {
			unknown[0] = unknown[0][:3500]
		}
		res.Err = kit.Fail("race detector: %d report(s) naming repository frames; first: %s", len(unknown), unknown[0])
	}
	return res
}

func TestC18(t *testing.T) {
	if !raceEnabled {
		t.Skip("binary not built with -race")
	}
	kit.Run(t, kit.Prop[c18Case]{ID: "C18", Part: "TestC18", Gen: genC18, Check: checkC18})
}
