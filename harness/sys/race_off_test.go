//go:build !race

package sys

const raceEnabled = false
