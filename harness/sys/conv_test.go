package sys

import (
	"bytes"
	"fmt"

	"verif/harness/kit"
	"verif/harness/ref"

	"pgregory.net/rapid"
)

// ---------- conversation building blocks shared by the socket-level properties ----------

type identity struct {
	Digits string
	V2019  bool
	Prefix string `json:",omitempty"` // the server's KeyFunc puts this in front of the phone number
}

func (id identity) bcd() []byte {
	if id.V2019 {
		return ref.PhoneBCDFromDigits(id.Digits, 10)
	}
	return ref.PhoneBCDFromDigits(id.Digits, 6)
}

// key is what the server uses as session key: the phone with leading zeros stripped.
func (id identity) key() string {
	if id.Prefix != "" {
		return id.Prefix + id.baseKey()
	}
	return id.baseKey()
}

func (id identity) baseKey() string {
	k := ref.StripZeros(id.Digits)
	if k == "" {
		n := 12
		if id.V2019 {
			n = 20
		}
		return fmt.Sprintf("%0*d", n, 0)
	}
	return k
}

func frame(id identity, msgID, serial uint16, body []byte) []byte {
	return ref.Spec{ID: msgID, Version2019: id.V2019, VersionByte: 1, PhoneBCD: id.bcd(), Serial: serial, Body: body}.Build()
}

func fragFrame(id identity, msgID, serial, total, no uint16, body []byte) []byte {
	return ref.Spec{ID: msgID, Version2019: id.V2019, VersionByte: 1, PhoneBCD: id.bcd(), Serial: serial, Fragmented: true, Total: total, No: no, Body: body}.Build()
}

// request is one terminal-originated message together with what the server must answer.
type request struct {
	Frames   [][]byte // one frame, or the packets of a sub-packaged message in sending order
	MsgID    uint16
	Serials  []uint16 // serial(s) a reply may echo (any packet's serial for a transfer)
	Kind     string   // reply | noreply | unsupported
	ReplyID  uint16
	Check    func(f *ref.Frame) string // validates the reply body ("" = ok)
	Desc     string
	FullBody []byte // body delivered to callbacks (concatenation for transfers)
	Transfer bool
}

var bcdTime = []byte{0x24, 0x10, 0x01, 0x12, 0x30, 0x45}

func validBody(t *rapid.T, msgID uint16, id identity, label string) ([]byte, string) {
	rb := func(n int) []byte { return rapid.SliceOfN(rapid.Byte(), n, n).Draw(t, label+"_rb") }
	switch msgID {
	case 0x0002:
		return nil, ""
	case 0x0100:
		// the registration response is built from the header alone: a body of any length (also one too short for the
		// layout's fixed fields, or none) is a complete message that requires its answer
		cut := func(b []byte) ([]byte, string) {
			if rapid.IntRange(0, 3).Draw(t, label+"_short0100") == 0 {
				return b[:rapid.IntRange(0, len(b)-1).Draw(t, label+"_keep0100")], ""
			}
			return b, ""
		}
		if id.V2019 {
			b := append(rb(4), make([]byte, 71)...)
			copy(b[4:], "MANUFACTURE")
			b = append(b, 1)
			return cut(append(b, "A12345"...))
		}
		b := append(rb(4), make([]byte, 32)...)
		b = append(b, 1)
		return cut(append(b, "A12345"...))
	case 0x0102:
		code := id.key()
		note := "auth_ok"
		if rapid.IntRange(0, 2).Draw(t, label+"_badauth") == 0 {
			code = code + "9"
			note = "auth_bad"
		}
		if id.V2019 {
			if rapid.IntRange(0, 5).Draw(t, label+"_short2019") == 0 {
				return rb(rapid.IntRange(0, 35).Draw(t, label+"_shortlen")), "auth_short"
			}
			b := []byte{byte(len(code))}
			b = append(b, code...)
			b = append(b, "123456789012345"...)
			b = append(b, make([]byte, 20)...)
			copy(b[len(b)-20:], "v1.0")
			return b, note
		}
		return []byte(code), note
	case 0x0200:
		b := rb(22)
		b = append(b, bcdTime...)
		if rapid.Bool().Draw(t, label+"_additions") {
			b = append(b, 0x01, 4, 0, 0, 1, 2, 0x30, 1, 9)
		}
		return b, ""
	case 0x0704:
		n := rapid.IntRange(1, 3).Draw(t, label+"_n")
		b := []byte{0, byte(n), 0}
		for i := 0; i < n; i++ {
			b = append(b, 0, 28)
			b = append(b, rb(22)...)
			b = append(b, bcdTime...)
		}
		return b, ""
	case 0x0800:
		return rb(8), ""
	case 0x0801:
		b := rb(30)
		b = append(b, bcdTime...)
		return append(b, rb(rapid.IntRange(0, 40).Draw(t, label+"_pkg"))...), ""
	case 0x1003:
		if rapid.IntRange(0, 3).Draw(t, label+"_odd1003") == 0 {
			// the acknowledgement of 0x1003 does not depend on its body: any length must still be answered
			return rb(rapid.IntRange(0, 20).Draw(t, label+"_len1003")), ""
		}
		return rb(10), ""
	case 0x1005:
		b := append(append([]byte{}, bcdTime...), bcdTime...)
		return append(b, rb(4)...), ""
	case 0x1210:
		sign := ref.AlarmSign(1, []byte("TERM001"), [6]byte{0x24, 0x10, 0x01, 0x12, 0x30, 0x45}, 1, 1)
		return ref.Body1210(1, []byte("TERM001"), []byte("ALARM-1"), sign, 0, []ref.AttachFile{{Name: []byte("a.jpg"), Size: 100}}), ""
	case 0x1211, 0x1212:
		return ref.Body1211([]byte("a.jpg"), 0, 100), ""
	case 0x0001:
		return []byte{0x12, 0x34, 0x81, 0x03, 0}, ""
	case 0x0104:
		return []byte{0x12, 0x34, 0}, ""
	case 0x0805:
		return []byte{0x12, 0x34, 0, 0, 0}, ""
	case 0x1205:
		return []byte{0x12, 0x34, 0, 0, 0, 0}, ""
	case 0x1206:
		return []byte{0x12, 0x34, 0}, ""
	}
	return rb(rapid.IntRange(0, 20).Draw(t, label+"_anylen")), ""
}

var replyBearing = []uint16{0x0002, 0x0100, 0x0102, 0x0200, 0x0704, 0x0800, 0x0801, 0x1003, 0x1005, 0x1210, 0x1211, 0x1212}
var responseIDs = []uint16{0x0001, 0x0104, 0x0805, 0x1205, 0x1206}
var unsupportedIDs = []uint16{0x0003, 0x0701, 0x0900, 0x0301, 0x7e7e, 0x1fc4}

func generalReplyCheck(msgID uint16, serials []uint16, result byte) func(f *ref.Frame) string {
	return func(f *ref.Frame) string {
		if len(f.Body) != 5 {
			return fmt.Sprintf("0x8001 body %x is not 5 bytes", f.Body)
		}
		s := ref.BE16(f.Body)
		okSerial := false
		for _, x := range serials {
			okSerial = okSerial || x == s
		}
		if !okSerial || ref.BE16(f.Body[2:]) != msgID || f.Body[4] != result {
			return fmt.Sprintf("0x8001 body echoes serial=%d id=%#04x result=%d, want serial in %v id=%#04x result=%d", s, ref.BE16(f.Body[2:]), f.Body[4], serials, msgID, result)
		}
		return ""
	}
}

// convMostlyTransfers biases genRequest towards sub-packaged messages (set by the C05 socket part while it generates).
var convMostlyTransfers bool

func genRequest(t *rapid.T, id identity, serial *uint16, allowTransfer bool, label string) request {
	next := func() uint16 { s := *serial; *serial++; return s }
	kind := rapid.IntRange(0, 11).Draw(t, label+"_kind")
	if convMostlyTransfers && allowTransfer && kind >= 4 {
		kind = 2
	}
	switch {
	case kind == 0: // response message: no reply
		m := rapid.SampledFrom(responseIDs).Draw(t, label+"_resp")
		b, _ := validBody(t, m, id, label)
		s := next()
		return request{Frames: [][]byte{frame(id, m, s, b)}, MsgID: m, Serials: []uint16{s}, Kind: "noreply", Desc: fmt.Sprintf("%#04x response", m), FullBody: b}
	case kind == 1: // unsupported
		m := rapid.SampledFrom(unsupportedIDs).Draw(t, label+"_unsup")
		b, _ := validBody(t, m, id, label)
		s := next()
		return request{Frames: [][]byte{frame(id, m, s, b)}, MsgID: m, Serials: []uint16{s}, Kind: "unsupported", Desc: fmt.Sprintf("%#04x unsupported", m), FullBody: b}
	case kind == 2 && allowTransfer: // sub-packaged message
		m := rapid.SampledFrom([]uint16{0x0200, 0x0704, 0x0801, 0x0800}).Draw(t, label+"_tid")
		full, _ := validBody(t, m, id, label)
		if m == 0x0800 {
			full = append(full, rapid.SliceOfN(rapid.Byte(), 8, 8).Draw(t, label+"_pad")...)[:8]
		}
		maxN := 4
		if convMostlyTransfers {
			maxN = 9
		}
		n := rapid.IntRange(1, min(maxN, max(2, len(full)))).Draw(t, label+"_npk") // 1: the fragment bit with "packet 1 of 1"
		if len(full) < n {
			n = len(full)
		}
		// cut full into n non-empty parts
		cuts := map[int]bool{}
		for len(cuts) < n-1 {
			cuts[rapid.IntRange(1, len(full)-1).Draw(t, label+"_cut")] = true
		}
		var parts [][]byte
		prev := 0
		for i := 1; i <= len(full); i++ {
			if cuts[i] || i == len(full) {
				parts = append(parts, full[prev:i])
				prev = i
			}
		}
		order := make([]int, 0, len(parts))
		for i := 1; i < len(parts); i++ {
			order = append(order, i)
		}
		if len(order) > 1 {
			order = rapid.Permutation(order).Draw(t, label+"_order")
		}
		order = append([]int{0}, order...)
		if len(order) >= 3 && rapid.IntRange(0, 2).Draw(t, label+"_dup") == 0 {
			// a packet other than the first is sent twice (new serial, same number and body) before the last distinct one
			i := rapid.IntRange(1, len(order)-2).Draw(t, label+"_dup_of")
			j := rapid.IntRange(i+1, len(order)-1).Draw(t, label+"_dup_at")
			order = append(order[:j], append([]int{order[i]}, order[j:]...)...)
		}
		r := request{MsgID: m, Kind: "reply", Transfer: true, FullBody: full, Desc: fmt.Sprintf("%#04x in %d packets", m, len(parts))}
		for _, i := range order {
			s := next()
			r.Serials = append(r.Serials, s)
			r.Frames = append(r.Frames, fragFrame(id, m, s, uint16(len(parts)), uint16(i+1), parts[i]))
		}
		r.ReplyID, r.Check = expectedReply(m, id, r.Serials, full, "")
		return r
	}
	m := rapid.SampledFrom(replyBearing).Draw(t, label+"_msg")
	b, note := validBody(t, m, id, label)
	s := next()
	r := request{Frames: [][]byte{frame(id, m, s, b)}, MsgID: m, Serials: []uint16{s}, Kind: "reply", Desc: fmt.Sprintf("%#04x %s", m, note), FullBody: b}
	if note == "auth_short" {
		r.Kind = "noreply"
		return r
	}
	r.ReplyID, r.Check = expectedReply(m, id, r.Serials, b, note)
	return r
}

func expectedReply(m uint16, id identity, serials []uint16, body []byte, note string) (uint16, func(f *ref.Frame) string) {
	switch m {
	case 0x0100:
		return 0x8100, func(f *ref.Frame) string {
			want := append([]byte{byte(serials[0] >> 8), byte(serials[0]), 0}, id.key()...)
			if len(serials) == 1 && !bytes.Equal(f.Body, want) {
				return fmt.Sprintf("0x8100 body %x, want serial, result 0 and the phone as auth code %x", f.Body, want)
			}
			return ""
		}
	case 0x0102:
		res := byte(0)
		if note == "auth_bad" {
			res = 1
		}
		return 0x8001, generalReplyCheck(m, serials, res)
	case 0x0801:
		return 0x8800, func(f *ref.Frame) string {
			okLen := len(f.Body) == 4 || (len(f.Body) == 5 && f.Body[4] == 0)
			if !okLen || !bytes.Equal(f.Body[:4], body[:4]) {
				return fmt.Sprintf("0x8800 body %x, want multimedia ID %x (4 bytes, or 5 with count 0)", f.Body, body[:4])
			}
			return ""
		}
	case 0x1212:
		return 0x9212, func(f *ref.Frame) string {
			want := append(append([]byte{}, body[:len(body)-4]...), 0, 0)
			if !bytes.Equal(f.Body, want) {
				return fmt.Sprintf("0x9212 body %x, want name/type, result 0, count 0: %x", f.Body, want)
			}
			return ""
		}
	case 0x1003:
		return 0x8001, func(f *ref.Frame) string { return "" } // acknowledgement body is empty by design (pinned by TestReply)
	}
	return 0x8001, generalReplyCheck(m, serials, 0)
}

var _ = kit.Hex{}
