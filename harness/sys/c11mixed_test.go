package sys

import (
	"fmt"
	"testing"

	"verif/harness/kit"
	"verif/harness/ref"

	"pgregory.net/rapid"
)

// C11, simultaneous joins with a known outcome: K owners are online; then D connections presenting owned keys
// (duplicates) and F connections presenting free keys say hello at the same instant (one barrier releases them).
// Unlike the racing groups of TestC11 nothing here is ambiguous: every duplicate must be refused (no reply, closed,
// announced with an error), every fresh connection admitted (reply, announced once without error), the owners stay
// untouched, and afterwards commands reach exactly the connection that owns each key.

type mixedCase struct {
	Owners      int   `json:"owners"`
	Duplicates  []int `json:"duplicate_presents_owner"` // per duplicate connection: index of the owner whose key it presents
	Fresh       int   `json:"fresh"`
	V2019       bool  `json:"v2019"`
	JitterUs    []int `json:"jitter_us"` // per joining connection: pause between the barrier and the hello
	JoinHoldUs  int   `json:"join_hold_us"`
	Procs       int   `json:"gomaxprocs,omitempty"`
	DoubleHello bool  `json:"first_write_carries_two_frames,omitempty"` // every joining connection sends its hello and a second heartbeat in one write
	LeaveSend   bool  `json:"leave_callback_sends_a_command,omitempty"`
	Waves       int   `json:"waves"`            // the same group of duplicates and fresh connections (new free keys each time) arrives this many times, one wave after the other
	Silent      bool  `json:"silent_callbacks"` // the server-side callbacks record nothing (their recorder lock would stagger the readers just before they join)
}

func genMixed(t *rapid.T) mixedCase {
	c := mixedCase{Owners: rapid.IntRange(1, 3).Draw(t, "owners"), Fresh: rapid.IntRange(1, 6).Draw(t, "fresh"), V2019: rapid.Bool().Draw(t, "v2019"),
		JoinHoldUs: rapid.SampledFrom([]int{0, 0, 300, 2000}).Draw(t, "join_hold"), Silent: rapid.IntRange(0, 3).Draw(t, "silent") != 0,
		Procs: rapid.SampledFrom([]int{0, 1, 2, 3, 4}).Draw(t, "procs"), Waves: rapid.IntRange(1, 12).Draw(t, "waves"),
		DoubleHello: rapid.IntRange(0, 2).Draw(t, "double_hello") == 0, LeaveSend: rapid.IntRange(0, 2).Draw(t, "leave_send") == 0}
	for i, n := 0, rapid.IntRange(1, 6).Draw(t, "dups"); i < n; i++ {
		c.Duplicates = append(c.Duplicates, rapid.IntRange(0, c.Owners-1).Draw(t, "dup_of"))
	}
	for i := 0; i < len(c.Duplicates)+c.Fresh; i++ {
		c.JitterUs = append(c.JitterUs, rapid.SampledFrom([]int{0, 0, 0, 0, 0, 20, 100}).Draw(t, "jitter"))
	}
	return c
}

func mixedIdentity(i int, v2019 bool) identity {
	return identity{Digits: fmt.Sprintf("1350000%04d", 4000+i), V2019: v2019}
}

func checkMixed(c mixedCase, _ *kit.Collector) kit.Result {
	res := kit.Result{}
	sc := Scenario{JoinHoldUs: c.JoinHoldUs, Silent: c.Silent, Procs: c.Procs, OnLeaveSend: c.LeaveSend}
	hb := func(id identity, serial uint16) []byte { return frame(id, 0x0002, serial, nil) }
	joiners := len(c.Duplicates) + c.Fresh
	all := c.Owners + joiners*c.Waves + 1
	first := c.Owners + joiners + 1 // owners, the first wave and the platform
	for o := 0; o < c.Owners; o++ {
		id := mixedIdentity(o, c.V2019)
		// the owners say hello to a server that has served nothing yet, all at the same instant, while the platform already
		// asks for keys that do not exist: the very first registry operations of a fresh server overlap
		sc.Actors = append(sc.Actors, Actor{Name: fmt.Sprintf("owner%d", o), Kind: "terminal", Steps: []Step{{Op: "dial"}, {Op: "respond", Rules: []Rule{{Behaviour: "answer"}}},
			{Op: "barrier", Barrier: "cold_start", Parties: c.Owners + 1}, {Op: "write", Hex: hb(id, 1)}, {Op: "wait_frames", N: 1, DeadlineMs: 5000}, {Op: "barrier", Barrier: "owners_online", Parties: first},
			{Op: "barrier", Barrier: "joined", Parties: all}, {Op: "write", Hex: hb(id, 2)}, {Op: "wait_frames", N: 2, DeadlineMs: 3000},
			{Op: "barrier", Barrier: "probe", Parties: all}, {Op: "barrier", Barrier: "done", Parties: all}, {Op: "close", Mode: "fin"}}})
	}
	for w := 0; w < c.Waves; w++ {
		for j := 0; j < joiners; j++ {
			var id identity
			name := fmt.Sprintf("w%dfresh%d", w, j-len(c.Duplicates))
			dup := j < len(c.Duplicates)
			if dup {
				id = mixedIdentity(c.Duplicates[j], c.V2019)
				name = fmt.Sprintf("w%ddup%d", w, j)
			} else {
				id = mixedIdentity(100+100*w+j, !c.V2019)
			}
			steps := []Step{{Op: "dial"}, {Op: "respond", Rules: []Rule{{Behaviour: "answer"}}}}
			if w == 0 {
				steps = append(steps, Step{Op: "barrier", Barrier: "owners_online", Parties: first})
			} else {
				steps = append(steps, Step{Op: "barrier", Barrier: fmt.Sprintf("wave%d_over", w-1), Parties: 2 * joiners}, Step{Op: "barrier", Barrier: fmt.Sprintf("wave%d_go", w), Parties: joiners})
			}
			hello := hb(id, uint16(500+j))
			helloFrames := 1
			if c.DoubleHello {
				hello = append(hello, hb(id, uint16(700+j))...)
				helloFrames = 2
			}
			steps = append(steps, Step{Op: "pause", PauseUs: c.JitterUs[j]}, Step{Op: "write", Hex: hello})
			if dup {
				steps = append(steps, Step{Op: "wait_eof", DeadlineMs: 3000})
			} else {
				steps = append(steps, Step{Op: "wait_frames", N: helloFrames, DeadlineMs: 3000})
			}
			if w < c.Waves-1 {
				steps = append(steps, Step{Op: "barrier", Barrier: fmt.Sprintf("wave%d_over", w), Parties: 2 * joiners})
			}
			steps = append(steps, Step{Op: "barrier", Barrier: "joined", Parties: all}, Step{Op: "barrier", Barrier: "probe", Parties: all}, Step{Op: "barrier", Barrier: "done", Parties: all}, Step{Op: "close", Mode: "fin"})
			sc.Actors = append(sc.Actors, Actor{Name: name, Kind: "terminal", Steps: steps})
		}
	}
	ps := []Step{{Op: "barrier", Barrier: "cold_start", Parties: c.Owners + 1}}
	for k := 0; k < 8; k++ {
		ps = append(ps, Step{Op: "send", Key: mixedIdentity(900+k, false).key(), Cmd: 0x8104, Body: []byte{0xc0, byte(k)}, TimeoutMs: 500, Async: true, CallID: 900 + k})
	}
	ps = append(ps, Step{Op: "join_calls", DeadlineMs: 2000}, Step{Op: "barrier", Barrier: "owners_online", Parties: first}, Step{Op: "barrier", Barrier: "joined", Parties: all}, Step{Op: "barrier", Barrier: "probe", Parties: all})
	for o := 0; o < c.Owners; o++ {
		ps = append(ps, Step{Op: "send", Key: mixedIdentity(o, c.V2019).key(), Cmd: 0x8104, Body: []byte{0xc1, byte(o)}, TimeoutMs: 1500, CallID: 100 + o})
	}
	for w := 0; w < c.Waves; w++ {
		for f := 0; f < c.Fresh; f++ {
			ps = append(ps, Step{Op: "send", Key: mixedIdentity(100+100*w+len(c.Duplicates)+f, !c.V2019).key(), Cmd: 0x8104, Body: []byte{0xc2, byte(w), byte(f)}, TimeoutMs: 1500, CallID: 200 + 10*w + f})
		}
	}
	ps = append(ps, Step{Op: "barrier", Barrier: "done", Parties: all})
	sc.Actors = append(sc.Actors, Actor{Name: "platform", Kind: "platform", Steps: ps})

	h := runScenario(sc)
	if !childVerdict(h, &res) {
		return res
	}
	for _, e := range h.Events {
		if e.Kind == "dial_err" {
			res.Err = fmt.Errorf("INFRA %s", e.Err)
			return res
		}
	}
	got := func(actor string) (replies int, eof bool, cmds [][]byte) {
		closedAt := int64(-1)
		for _, e := range h.Events {
			if e.Actor == actor && e.Kind == "close" && closedAt < 0 {
				closedAt = e.Seq
			}
		}
		for _, e := range h.Events {
			if e.Actor != actor {
				continue
			}
			if e.Kind == "recv" {
				if f, why := ref.Validate(e.Data); why == "" && f.ID == 0x8001 {
					replies++
				} else if why == "" && f.ID == 0x8104 {
					cmds = append(cmds, f.Body)
				}
			}
			if (e.Kind == "eof" || e.Kind == "read_err") && (closedAt < 0 || e.Seq < closedAt) {
				eof = true
			}
		}
		return
	}
	for wj := 0; wj < c.Waves*len(c.Duplicates); wj++ {
		w, j := wj/len(c.Duplicates), wj%len(c.Duplicates)
		name := fmt.Sprintf("w%ddup%d", w, j)
		r, eof, cmds := got(name)
		if r != 0 || len(cmds) != 0 {
			res.Err = kit.Fail("%s presented the key of owner%d, which is online, and was served: %d replies, %d commands", name, c.Duplicates[j], r, len(cmds))
			return res
		}
		if !eof {
			res.Err = fmt.Errorf("SOFT %s presented an online key and was not closed within 3 s", name)
			return res
		}
	}
	for wf := 0; wf < c.Waves*c.Fresh; wf++ {
		w, f := wf/c.Fresh, wf%c.Fresh
		name := fmt.Sprintf("w%dfresh%d", w, f)
		r, eof, cmds := got(name)
		if eof {
			res.Err = kit.Fail("%s presented a free key (while %d duplicates of online keys said hello at the same instant) and was closed by the server", name, len(c.Duplicates))
			return res
		}
		if want := 1 + btoi(c.DoubleHello); r != want {
			res.Err = fmt.Errorf("SOFT %s presented a free key and got %d of %d replies to its first write", name, r, want)
			return res
		}
		if len(cmds) != 1 || len(cmds[0]) != 3 || cmds[0][0] != 0xc2 || int(cmds[0][1]) != w || int(cmds[0][2]) != f {
			res.Err = kit.Fail("%s owns its key but received commands %x (want exactly its own)", name, cmds)
			return res
		}
	}
	for o := 0; o < c.Owners; o++ {
		name := fmt.Sprintf("owner%d", o)
		r, eof, cmds := got(name)
		if eof || r != 2 {
			res.Err = kit.Fail("%s was online before the duplicates arrived and was disturbed: %d of 2 replies, closed by the server: %v", name, r, eof)
			return res
		}
		if len(cmds) != 1 || cmds[0][0] != 0xc1 || int(cmds[0][1]) != o {
			res.Err = kit.Fail("%s owns its key but received commands %x (want exactly its own)", name, cmds)
			return res
		}
	}
	// every command returned with its response; join announcements: one success per owner and fresh key, one error per duplicate
	for _, e := range h.Events {
		if e.Kind == "call_result" && e.Call >= 900 {
			if e.Note != "not_exist" {
				res.Err = fmt.Errorf("SOFT a command for a key that never joined (sent to the fresh server) returned %q, want not-exist", e.Err)
				return res
			}
			continue
		}
		if e.Kind == "call_result" && (e.Err != "" || !e.Flag) {
			res.Err = fmt.Errorf("SOFT command %d for an online key returned %q", e.Call, e.Err)
			return res
		}
	}
	okJoins, badJoins := 0, 0
	for _, e := range h.Events {
		if e.Kind == "cb_join" {
			if e.Err == "" {
				okJoins++
			} else {
				badJoins++
			}
		}
	}
	if c.DoubleHello {
		res.Labels = append(res.Labels, "first_write_carries_two_frames")
	}
	if c.LeaveSend {
		res.Labels = append(res.Labels, "leave_callback_sends_a_command")
	}
	if !c.Silent && (okJoins != c.Owners+c.Fresh*c.Waves || badJoins != len(c.Duplicates)*c.Waves) {
		res.Err = kit.Fail("join callback: %d successful and %d refused announcements, want %d and %d", okJoins, badJoins, c.Owners+c.Fresh*c.Waves, len(c.Duplicates)*c.Waves)
		return res
	}
	res.Labels = []string{"simultaneous_duplicates_and_fresh", fmt.Sprintf("duplicates_%d", len(c.Duplicates)), fmt.Sprintf("fresh_%d", c.Fresh)}
	res.NT = len(c.Duplicates)*c.Waves >= 2 && c.Fresh*c.Waves >= 2
	return res
}

func TestC11Mixed(t *testing.T) {
	kit.Run(t, kit.Prop[mixedCase]{ID: "C11", Part: "TestC11Mixed", Gen: genMixed, Check: softRetry(checkMixed)})
}
