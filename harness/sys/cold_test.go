package sys

import (
	"encoding/json"
	"errors"
	"fmt"
	"io"
	"net"
	"os"
	"sync"
	"sync/atomic"
	"testing"
	"time"

	"verif/harness/kit"
	"verif/harness/ref"

	"github.com/cuteLittleDevil/go-jt808/service"
	"github.com/cuteLittleDevil/go-jt808/shared/consts"

	"pgregory.net/rapid"
)

// C11, cold start: the registry of a server that has served nothing yet. Every other part of the engine opens a probe
// connection first (its leave is the first registry operation, and it completes alone), so "the very first registry
// operations overlap" was never generated. Here one child process builds Rounds fresh servers, one after the other, and
// on each of them the first operations - SendActiveMessage calls for keys that are not online and the hellos of the
// first terminals - are released by one spin barrier. Afterwards the registry must behave like one registry: a further
// connection presenting an online key is refused and closed, a command for an online key is never answered "not
// exist", a command for a key that never joined always is.

type ColdSpec struct {
	Rounds     int  `json:"rounds"`
	Callers    int  `json:"callers"`    // goroutines whose first SendActiveMessage (unknown key) is released by the barrier
	Hellos     int  `json:"hellos"`     // connections (distinct free keys) whose hello is written at the same instant
	Duplicates int  `json:"duplicates"` // afterwards: connections presenting the key of hello 0 (or of a late first terminal)
	Commands   int  `json:"commands"`   // afterwards: commands for each online key
	V2019      bool `json:"v2019"`
	CallerLead int  `json:"caller_lead"` // callers are released this many spin iterations after the hellos were handed to the kernel
}

type coldEventer struct {
	joins *sync.Map // key -> *atomic.Int64 (successful announcements)
	bad   *sync.Map // phone of the refused hello -> *atomic.Int64
}

func (e *coldEventer) OnJoinEvent(msg *service.Message, key string, err error) {
	if err != nil {
		if msg != nil && msg.JTMessage != nil && msg.JTMessage.Header != nil {
			v, _ := e.bad.LoadOrStore(msg.JTMessage.Header.TerminalPhoneNo, new(atomic.Int64))
			v.(*atomic.Int64).Add(1)
		}
		return
	}
	v, _ := e.joins.LoadOrStore(key, new(atomic.Int64))
	v.(*atomic.Int64).Add(1)
}
func (e *coldEventer) OnLeaveEvent(string)                   {}
func (e *coldEventer) OnNotSupportedEvent(*service.Message)  {}
func (e *coldEventer) OnReadExecutionEvent(*service.Message) {}
func (e *coldEventer) OnWriteExecutionEvent(service.Message) {}

// phones carry the child's pid: several children run at once, and a port picked by "listen on :0, close" can be taken
// by another child before this one listens on it (seen once in the thorough tier: foreign terminals were counted)
func coldIdentity(round, i int, v2019 bool) identity {
	return identity{Digits: fmt.Sprintf("1%05d%02d%03d", os.Getpid()%100000, round%100, i), V2019: v2019}
}

// readFrames reads until n valid 0x8001 replies arrived, EOF, or the deadline; returns replies, commands, eof.
func coldRead(c net.Conn, wantReplies int, d time.Duration) (replies, cmds int, eof bool) {
	_ = c.SetReadDeadline(time.Now().Add(d))
	var buf []byte
	tmp := make([]byte, 4096)
	for {
		n, err := c.Read(tmp)
		buf = append(buf, tmp[:n]...)
		fs, _ := ref.SplitFrames(buf)
		replies, cmds = 0, 0
		for _, f := range fs {
			if fr, why := ref.Validate(f); why == "" {
				if fr.ID == 0x8001 {
					replies++
				} else {
					cmds++
				}
			}
		}
		if err != nil {
			var ne net.Error
			if errors.As(err, &ne) && ne.Timeout() {
				return replies, cmds, false
			}
			return replies, cmds, true
		}
		if wantReplies > 0 && replies >= wantReplies {
			return replies, cmds, false
		}
	}
}

func coldDial(addr string) (net.Conn, error) {
	var err error
	for i := 0; i < 400; i++ {
		var c net.Conn
		if c, err = net.DialTimeout("tcp", addr, time.Second); err == nil {
			return c, nil
		}
		time.Sleep(3 * time.Millisecond)
	}
	return nil, err
}

func childCold(spec ColdSpec, out io.Writer) {
	var evs []Event
	add := func(e Event) { e.Seq = int64(len(evs) + 1); evs = append(evs, e) }
	finish := func() {
		b, _ := json.Marshal(History{Events: evs, Exit: "ok"})
		out.Write(b)
		out.Write([]byte("\n"))
		os.Exit(0)
	}
	for round := 0; round < spec.Rounds; round++ {
		l, err := net.Listen("tcp", "127.0.0.1:0")
		if err != nil {
			add(Event{Kind: "dial_err", Err: err.Error()})
			finish()
		}
		addr := l.Addr().String()
		l.Close()
		joins, bad := &sync.Map{}, &sync.Map{}
		srv := service.New(service.WithHostPorts(addr), service.WithCustomTerminalEventer(func() service.TerminalEventer {
			return &coldEventer{joins: joins, bad: bad}
		}))
		var listenFailed atomic.Bool
		go func() { srv.Run(); listenFailed.Store(true) }() // Run returns only when it cannot listen
		// no probe connection: the connections of the first terminals are the first the server sees
		hellos := max(spec.Hellos, 0)
		conns := make([]net.Conn, 0, hellos+1)
		for i := 0; i < hellos; i++ {
			c, err := coldDial(addr)
			if err != nil {
				add(Event{Kind: "dial_err", Err: err.Error()})
				finish()
			}
			conns = append(conns, c)
		}
		if hellos == 0 { // make sure the listener is up without touching the registry: the late first terminal dials now, speaks later
			c, err := coldDial(addr)
			if err != nil {
				add(Event{Kind: "dial_err", Err: err.Error()})
				finish()
			}
			conns = append(conns, c)
		}
		time.Sleep(2 * time.Millisecond) // accepted connections reach their first read
		var gate atomic.Int32
		var wg sync.WaitGroup
		notExist := make([]bool, spec.Callers)
		for k := 0; k < spec.Callers; k++ {
			wg.Add(1)
			go func(k int) {
				defer wg.Done()
				am := service.NewActiveMessage(coldIdentity(round, 900+k, false).key(), consts.JT808CommandType(0x8104), nil, 300*time.Millisecond)
				for gate.Load() < 2 {
				}
				res := srv.SendActiveMessage(am)
				notExist[k] = res != nil && errors.Is(res.ExtensionFields.Err, service.ErrNotExistKey)
			}(k)
		}
		for i := 0; i < hellos; i++ {
			wg.Add(1)
			go func(i int) {
				defer wg.Done()
				hello := frame(coldIdentity(round, i, spec.V2019), 0x0002, 1, nil)
				for gate.Load() < 1 {
				}
				_, _ = conns[i].Write(hello)
			}(i)
		}
		time.Sleep(200 * time.Microsecond) // everyone is spinning
		gate.Store(1)
		for i := 0; i < spec.CallerLead; i++ {
			_ = gate.Load()
		}
		gate.Store(2)
		wg.Wait()
		for k, ok := range notExist {
			if !ok {
				add(Event{Kind: "cold_violation", Note: fmt.Sprintf("round %d: one of the first %d commands of a fresh server, for key %s which never joined, did not come back as not-exist", round, spec.Callers, coldIdentity(round, 900+k, false).key())})
				finish()
			}
		}
		online := hellos
		if hellos == 0 {
			_, _ = conns[0].Write(frame(coldIdentity(round, 0, spec.V2019), 0x0002, 1, nil))
			online = 1
		}
		for i := 0; i < online; i++ {
			if r, _, eof := coldRead(conns[i], 1, 3*time.Second); r != 1 || eof {
				add(Event{Kind: "cold_soft", Note: fmt.Sprintf("round %d: first terminal %d with a free key got %d replies to its hello (closed: %v)", round, i, r, eof)})
				finish()
			}
		}
		if listenFailed.Load() {
			add(Event{Kind: "dial_err", Err: "another process took the port between picking it and listening on it"})
			finish()
		}
		// from here on the registry has K online keys; everything below is sequential
		for d := 0; d < spec.Duplicates; d++ {
			own := d % online
			c, err := coldDial(addr)
			if err != nil {
				add(Event{Kind: "dial_err", Err: err.Error()})
				finish()
			}
			_, _ = c.Write(frame(coldIdentity(round, own, spec.V2019), 0x0002, uint16(10+d), nil))
			r, cm, eof := coldRead(c, 1, 2*time.Second)
			c.Close()
			if r != 0 || cm != 0 {
				add(Event{Kind: "cold_violation", Note: fmt.Sprintf("round %d: connection presenting key %s, which is online since the first instant of this server (%d callers and %d hellos at once), was served: %d replies", round, coldIdentity(round, own, spec.V2019).key(), spec.Callers, hellos, r)})
				finish()
			}
			if !eof {
				add(Event{Kind: "cold_soft", Note: fmt.Sprintf("round %d: duplicate of an online key was not closed within 2 s", round)})
				finish()
			}
		}
		for i := 0; i < online; i++ {
			for m := 0; m < spec.Commands; m++ {
				res := srv.SendActiveMessage(service.NewActiveMessage(coldIdentity(round, i, spec.V2019).key(), consts.JT808CommandType(0x8104), nil, 15*time.Millisecond))
				if res != nil && errors.Is(res.ExtensionFields.Err, service.ErrNotExistKey) {
					add(Event{Kind: "cold_violation", Note: fmt.Sprintf("round %d: command %d for key %s, which is online and was never closed, came back as not-exist", round, m, coldIdentity(round, i, spec.V2019).key())})
					finish()
				}
			}
			res := srv.SendActiveMessage(service.NewActiveMessage(coldIdentity(round, 800+i, false).key(), consts.JT808CommandType(0x8104), nil, 15*time.Millisecond))
			if res == nil || !errors.Is(res.ExtensionFields.Err, service.ErrNotExistKey) {
				add(Event{Kind: "cold_violation", Note: fmt.Sprintf("round %d: a command for a key that never joined did not come back as not-exist", round)})
				finish()
			}
		}
		okJoins, badJoins := 0, 0
		for i := 0; i < online; i++ { // only this round's own keys (a stray connection of another process is not ours to judge)
			if v, ok := joins.Load(coldIdentity(round, i, spec.V2019).key()); ok {
				okJoins += int(v.(*atomic.Int64).Load())
			}
			if v, ok := bad.Load(coldIdentity(round, i, spec.V2019).key()); ok {
				badJoins += int(v.(*atomic.Int64).Load())
			}
		}
		if listenFailed.Load() {
			add(Event{Kind: "dial_err", Err: "another process took the port between picking it and listening on it"})
			finish()
		}
		if okJoins != online || badJoins != spec.Duplicates {
			add(Event{Kind: "cold_violation", Note: fmt.Sprintf("round %d: join callback announced %d successes and %d refusals, want %d and %d", round, okJoins, badJoins, online, spec.Duplicates)})
			finish()
		}
		for _, c := range conns {
			c.Close()
		}
		add(Event{Kind: "cold_round_ok", Conn: round})
	}
	finish()
}

func genCold(t *rapid.T) ColdSpec {
	c := ColdSpec{Rounds: rapid.IntRange(20, 40).Draw(t, "rounds"), Callers: rapid.SampledFrom([]int{0, 2, 3, 4, 8, 16, 32}).Draw(t, "callers"),
		Hellos: rapid.IntRange(0, 4).Draw(t, "hellos"), Duplicates: rapid.IntRange(1, 4).Draw(t, "duplicates"), Commands: rapid.IntRange(1, 4).Draw(t, "commands"),
		V2019: rapid.Bool().Draw(t, "v2019"), CallerLead: rapid.SampledFrom([]int{0, 0, 50, 500, 5000}).Draw(t, "caller_lead")}
	if c.Callers+c.Hellos < 2 {
		c.Callers = 2
	}
	return c
}

type coldCase struct {
	Spec  ColdSpec `json:"cold_start"`
	Procs int      `json:"gomaxprocs"`
}

func checkCold(c coldCase, _ *kit.Collector) kit.Result {
	res := kit.Result{}
	spec := c.Spec
	h := runScenario(Scenario{Cold: &spec, Procs: c.Procs})
	if !childVerdict(h, &res) {
		return res
	}
	rounds := 0
	for _, e := range h.Events {
		switch e.Kind {
		case "dial_err":
			res.Err = fmt.Errorf("INFRA %s", e.Err)
			return res
		case "cold_soft":
			res.Err = fmt.Errorf("SOFT %s", e.Note)
			return res
		case "cold_violation":
			res.Err = kit.Fail("%s", e.Note)
			return res
		case "cold_round_ok":
			rounds++
		}
	}
	if rounds != spec.Rounds {
		res.Err = fmt.Errorf("INFRA child finished %d of %d rounds without a verdict", rounds, spec.Rounds)
		return res
	}
	res.Labels = []string{fmt.Sprintf("first_callers_%d", spec.Callers), fmt.Sprintf("first_hellos_%d", spec.Hellos)}
	res.NT = spec.Callers+spec.Hellos >= 2
	return res
}

func TestC11Cold(t *testing.T) {
	kit.Run(t, kit.Prop[coldCase]{ID: "C11", Part: "TestC11Cold", Gen: func(t *rapid.T) coldCase {
		return coldCase{Spec: genCold(t), Procs: rapid.SampledFrom([]int{2, 4, 8, 16}).Draw(t, "procs")}
	}, Check: softRetry(checkCold)})
}
