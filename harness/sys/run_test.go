package sys

import (
	"bytes"
	"context"
	"encoding/json"
	"fmt"
	"os"
	"os/exec"
	"regexp"
	"strings"
	"time"
)

// runScenario executes sc in a fresh child process (this same test binary with VERIF_CHILD=1) and
// returns the recorded history. A child that dies is itself an observation (Exit != "ok").
func runScenario(sc Scenario) History {
	in, _ := json.Marshal(sc)
	exe, err := os.Executable()
	if err != nil {
		return History{Exit: "infra", Stderr: err.Error()}
	}
	budget := 120 * time.Second
	if sc.MaxMs > 0 {
		budget = time.Duration(sc.MaxMs)*time.Millisecond + 60*time.Second
	}
	ctx, cancel := context.WithTimeout(context.Background(), budget)
	defer cancel()
	cmd := exec.CommandContext(ctx, exe)
	cmd.Env = append(os.Environ(), "VERIF_CHILD=1", "GORACE=halt_on_error=0 atexit_sleep_ms=0 exitcode=0 history_size=3", "GOMAXPROCS=2")
	cmd.Stdin = bytes.NewReader(in)
	var stdout, stderr bytes.Buffer
	cmd.Stdout = &stdout
	cmd.Stderr = &stderr
	err = cmd.Run()
	se := stderr.String()
	tail := se
	if len(tail) > 6000 {
		tail = tail[len(tail)-6000:]
	}
	var h History
	if ctx.Err() != nil {
		return History{Exit: "timeout", Stderr: tail}
	}
	if strings.Contains(se, "HARNESS-ERROR") {
		return History{Exit: "infra", Stderr: tail}
	}
	if jerr := json.Unmarshal(bytes.TrimSpace(stdout.Bytes()), &h); jerr != nil || err != nil {
		exit := "panic"
		if err != nil && !strings.Contains(se, "panic:") && !strings.Contains(se, "fatal error:") && !strings.Contains(se, "goroutine ") {
			exit = "infra"
		}
		first := se
		if len(first) > 5000 {
			first = first[:5000]
		}
		return History{Exit: exit, Stderr: fmt.Sprintf("child exit: %v\n%s", err, first)}
	}
	h.Races = parseRaces(se)
	if len(h.Races) > 0 {
		h.Exit = "race"
	}
	h.Stderr = tail
	return h
}

var raceSplit = regexp.MustCompile(`(?m)^==================$`)

// parseRaces extracts the race detector's reports that name a frame of the repository.
func parseRaces(stderr string) []string {
	var out []string
	for _, blk := range raceSplit.Split(stderr, -1) {
		if !strings.Contains(blk, "WARNING: DATA RACE") {
			continue
		}
		if !strings.Contains(blk, "github.com/cuteLittleDevil/go-jt808/") {
			continue
		}
		out = append(out, strings.TrimSpace(blk))
	}
	return out
}

var repoFrame = regexp.MustCompile(`github\.com/cuteLittleDevil/go-jt808/[^\s(]+(\([^)]*\))?[^\s(]*`)

// raceKey is the pair of top repository frames of the two conflicting accesses (dedup / known-finding key).
func raceKey(report string) string {
	parts := regexp.MustCompile(`(?m)^(Previous|Read|Write|Atomic)`).Split(report, -1)
	var tops []string
	for _, p := range parts {
		if m := repoFrame.FindString(p); m != "" {
			// function name without the module prefix
			m = strings.TrimPrefix(m, "github.com/cuteLittleDevil/go-jt808/")
			if i := strings.Index(m, "()"); i > 0 {
				m = m[:i]
			}
			tops = append(tops, m)
		}
		if len(tops) == 2 {
			break
		}
	}
	if len(tops) == 2 && tops[0] > tops[1] {
		tops[0], tops[1] = tops[1], tops[0]
	}
	return strings.Join(tops, " <-> ")
}
