package sys

import (
	"bytes"
	"fmt"
	"testing"

	"verif/harness/kit"
	"verif/harness/ref"

	"pgregory.net/rapid"
)

// C06: automatic replies - one per request, correctly correlated, ordered and numbered; callbacks exactly once.

type convTerminal struct {
	ID    identity  `json:"identity"`
	Reqs  []reqJSON `json:"requests"`
	Group []int     `json:"write_groups"` // number of frames per write (coalescing); a transfer's last packet always ends a write
	Gap   []int     `json:"gap_us"`
	// Quiet: after its last request the terminal sends nothing until it has received every reply it is owed
	// (only then the closing heartbeat): a reply may not wait for later traffic
	Quiet bool `json:"waits_for_all_replies_before_the_closing_heartbeat,omitempty"`
}

// reqJSON is the serialisable part of a request (the checks are re-derived from it).
type reqJSON struct {
	Frames   []kit.Hex `json:"frames"`
	MsgID    uint16    `json:"msg_id"`
	Serials  []uint16  `json:"serials"`
	Kind     string    `json:"kind"`
	Note     string    `json:"note,omitempty"`
	FullBody kit.Hex   `json:"full_body"`
	Transfer bool      `json:"transfer,omitempty"`
}

func toJSON(r request, note string) reqJSON {
	j := reqJSON{MsgID: r.MsgID, Serials: r.Serials, Kind: r.Kind, FullBody: r.FullBody, Transfer: r.Transfer, Note: note}
	for _, f := range r.Frames {
		j.Frames = append(j.Frames, f)
	}
	return j
}

type c06Case struct {
	Terminals []convTerminal `json:"terminals"`
	Handlers  string         `json:"handlers"`
	HoldUs    int            `json:"read_hold_us"`
	WriteHold int            `json:"write_hold_us,omitempty"` // the write callback sleeps: the writer lags behind the reader, messages queue up between them
	// Prelude: bytes an earlier connection of another terminal sent before it hung up (may end inside a frame or inside a
	// transfer); the conversations start after it has gone
	Prelude kit.Hex `json:"earlier_connection_sent,omitempty"`
}

func genConv(t *rapid.T, id identity, maxReqs int, allowTransfer bool, label string) convTerminal {
	c := convTerminal{ID: id}
	serial := uint16(rapid.SampledFrom([]int{0, 1, 65530, 300, 0x7d00}).Draw(t, label+"_serial0"))
	n := rapid.IntRange(1, maxReqs).Draw(t, label+"_nreq")
	for i := 0; i < n; i++ {
		rid := id
		if i > 0 && rapid.IntRange(0, 9).Draw(t, label+"_other_layout") == 0 {
			rid.V2019 = !id.V2019 // the same phone number in the other header layout on the same connection
		}
		r := genRequest(t, rid, &serial, allowTransfer, label)
		note := ""
		if r.MsgID == 0x0102 && r.Kind == "reply" {
			// recompute the note from the body: the reply check needs it on replay
			if r.Check(&ref.Frame{Body: append(append([]byte{byte(r.Serials[0] >> 8), byte(r.Serials[0])}, 0x01, 0x02), 1)}) == "" {
				note = "auth_bad"
			} else {
				note = "auth_ok"
			}
		}
		c.Reqs = append(c.Reqs, toJSON(r, note))
		if !r.Transfer && rapid.IntRange(0, 7).Draw(t, label+"_resend") == 0 {
			// the terminal sends the same frame again (same serial, byte-identical: a retransmission). Each copy is a
			// handled message of its own: its own reply, its own callbacks
			for k, n := 0, rapid.IntRange(1, 2).Draw(t, label+"_resend_n"); k < n; k++ {
				c.Reqs = append(c.Reqs, toJSON(r, note))
			}
		}
	}
	burstTail := rapid.IntRange(0, 4).Draw(t, label+"_burst_tail") == 0
	if burstTail {
		// the conversation ends with a heartbeat followed, in the same write, by terminal responses (which get no reply):
		// the heartbeat's reply must still reach the terminal although nothing answerable follows it
		s0 := serial
		serial++
		hb := request{Frames: [][]byte{frame(id, 0x0002, s0, nil)}, MsgID: 0x0002, Serials: []uint16{s0}, Kind: "reply"}
		c.Reqs = append(c.Reqs, toJSON(hb, ""))
		for k, n := 0, rapid.IntRange(1, 4).Draw(t, label+"_tail_n"); k < n; k++ {
			m := rapid.SampledFrom(responseIDs).Draw(t, label+"_tail_id")
			b, _ := validBody(t, m, id, label+"_tail")
			sk := serial
			serial++
			c.Reqs = append(c.Reqs, toJSON(request{Frames: [][]byte{frame(id, m, sk, b)}, MsgID: m, Serials: []uint16{sk}, Kind: "noreply", FullBody: b}, ""))
		}
	}
	mode := rapid.IntRange(0, 2).Draw(t, label+"_coalesce")
	if burstTail {
		mode = 2
		c.Quiet = true
	} else {
		c.Quiet = rapid.IntRange(0, 3).Draw(t, label+"_quiet") == 0
	}
	for range c.Reqs {
		switch mode {
		case 0:
			c.Group = append(c.Group, 1)
		case 1:
			c.Group = append(c.Group, rapid.IntRange(1, 4).Draw(t, label+"_grp"))
		default:
			c.Group = append(c.Group, 100)
		}
		c.Gap = append(c.Gap, rapid.SampledFrom([]int{0, 0, 50, 500, 2000}).Draw(t, label+"_gap"))
	}
	return c
}

func genIdentity(t *rapid.T, i int, label string) identity {
	v := rapid.Bool().Draw(t, label+"_v2019")
	digits := fmt.Sprintf("1380013%04d", 1000+i)
	switch rapid.IntRange(0, 5).Draw(t, label+"_phonek") {
	case 0:
		digits = fmt.Sprintf("%d", 7+i) // short number: many leading zeros
	case 1:
		digits = fmt.Sprintf("99999999%04d", 9990+i)
	case 2:
		if i == 0 {
			digits = "0" // the all-zero phone number (one terminal per server: it is a key like any other)
		}
	}
	return identity{Digits: digits, V2019: v}
}

func genC06(t *rapid.T) c06Case {
	c := c06Case{Handlers: rapid.SampledFrom([]string{"", "", "parse_all"}).Draw(t, "handlers"), HoldUs: rapid.SampledFrom([]int{0, 1000, 1000}).Draw(t, "hold")}
	if c.WriteHold = rapid.SampledFrom([]int{0, 0, 500, 3000}).Draw(t, "write_hold"); c.WriteHold > 0 {
		c.HoldUs = 0
	}
	n := rapid.IntRange(1, 4).Draw(t, "terminals")
	if rapid.IntRange(0, 3).Draw(t, "prelude") == 0 {
		// another terminal said hello, began a transfer and hung up in the middle of its second packet
		pid := identity{Digits: "13800139999", V2019: rapid.Bool().Draw(t, "prelude_v2019")}
		p2 := fragFrame(pid, 0x0801, 78, 3, 2, make([]byte, 40))
		c.Prelude = append(append(frame(pid, 0x0002, 76, nil), fragFrame(pid, 0x0801, 77, 3, 1, make([]byte, 40))...), p2[:rapid.IntRange(1, len(p2)-1).Draw(t, "prelude_keep")]...)
	}
	for i := 0; i < n; i++ {
		c.Terminals = append(c.Terminals, genConv(t, genIdentity(t, i, fmt.Sprintf("id%d", i)), 14, true, fmt.Sprintf("t%d", i)))
	}
	return c
}

// sentinelSerial is the serial of the heartbeat that closes every conversation (never used by generated requests' replies).
const sentinelSerial = 0x4fff

// convSteps turns a conversation into terminal steps; returns the steps and the number of replies expected.
func convSteps(c convTerminal, closeAtEnd bool) ([]Step, int) {
	steps := []Step{{Op: "dial"}}
	expect := 0
	var pending []byte
	inGroup := 0
	gi := 0
	flush := func() {
		if len(pending) > 0 {
			steps = append(steps, Step{Op: "write", Hex: pending})
			pending = nil
			inGroup = 0
		}
	}
	for i, r := range c.Reqs {
		for k, f := range r.Frames {
			pending = append(pending, f...)
			_ = k
		}
		inGroup++
		if r.Kind == "reply" {
			expect++
		}
		limit := 1
		if gi < len(c.Group) {
			limit = c.Group[gi]
		}
		if r.Transfer || inGroup >= limit || len(pending) > 900 {
			flush()
			gi++
			if r.Transfer {
				// the reply to a completed transfer is awaited before anything else is sent (see DESIGN.md C06)
				steps = append(steps, Step{Op: "wait_frames", N: expect, DeadlineMs: 5000})
			} else if i < len(c.Gap) && c.Gap[i] > 0 {
				steps = append(steps, Step{Op: "pause", PauseUs: c.Gap[i]})
			}
		}
	}
	flush()
	if c.Quiet {
		steps = append(steps, Step{Op: "wait_frames", N: expect, DeadlineMs: 2500})
	}
	steps = append(steps, Step{Op: "write", Hex: frame(c.ID, 0x0002, sentinelSerial, nil)})
	expect++
	steps = append(steps, Step{Op: "wait_frames", N: expect, DeadlineMs: 8000})
	if closeAtEnd {
		steps = append(steps, Step{Op: "close", Mode: "fin"})
	}
	return steps, expect
}

func (r reqJSON) check() (uint16, func(f *ref.Frame) string) {
	id := identity{}
	if f, why := ref.Validate(r.Frames[0]); why == "" {
		id = identity{Digits: ref.PhoneDigits(f.PhoneBCD), V2019: f.Version2019}
	}
	return expectedReply(r.MsgID, id, r.Serials, r.FullBody, r.Note)
}

// judgeConversation checks one terminal's received frames and the callbacks against the replies model.
func judgeConversation(name string, c convTerminal, h History, firstPlatformSerial int) (labels []string, err error) {
	var recv []Event
	for _, e := range h.Events {
		if e.Actor == name && e.Kind == "recv" {
			recv = append(recv, e)
		}
		if e.Actor == name && e.Kind == "timeout" {
			return nil, fmt.Errorf("SOFT %s: %s", name, e.Note)
		}
		if e.Actor == name && (e.Kind == "dial_err") {
			return nil, fmt.Errorf("INFRA %s: %s", name, e.Err)
		}
	}
	type exp struct {
		r   reqJSON
		idx int
	}
	mixed, resent := false, false
	var want []exp
	for i, r := range c.Reqs {
		if r.Kind == "reply" {
			want = append(want, exp{r, i})
		}
	}
	sentinel := reqJSON{Frames: []kit.Hex{frame(c.ID, 0x0002, sentinelSerial, nil)}, MsgID: 0x0002, Serials: []uint16{sentinelSerial}, Kind: "reply"}
	want = append(want, exp{sentinel, -1})
	if len(recv) != len(want) {
		var ids []string
		for _, e := range recv {
			if f, why := ref.Validate(e.Data); why == "" {
				ids = append(ids, fmt.Sprintf("%04x", f.ID))
			} else {
				ids = append(ids, "bad")
			}
		}
		return nil, fmt.Errorf("%s: received %d frames %v, the model expects %d replies (one per reply-bearing request, none for responses/unsupported IDs)", name, len(recv), ids, len(want))
	}
	for k, w := range want {
		f, why := ref.Validate(recv[k].Data)
		if why != "" {
			return nil, fmt.Errorf("%s: frame %d from the server is malformed (%s): %x", name, k, why, []byte(recv[k].Data))
		}
		rid, chk := w.r.check()
		if f.ID != rid {
			return nil, fmt.Errorf("%s: reply %d has type %#04x, want %#04x for request %#04x (serials %v)", name, k, f.ID, rid, w.r.MsgID, w.r.Serials)
		}
		reqID := c.ID
		if rf, why := ref.Validate(w.r.Frames[len(w.r.Frames)-1]); why == "" {
			reqID.V2019 = rf.Version2019 // a reply uses the layout of the request it answers
		}
		if !bytes.Equal(f.PhoneBCD, reqID.bcd()) || f.Version2019 != reqID.V2019 {
			return nil, fmt.Errorf("%s: reply %d addressed to phone %x v2019=%v, want %x v2019=%v (layout of its request)", name, k, f.PhoneBCD, f.Version2019, reqID.bcd(), reqID.V2019)
		}
		if reqID.V2019 != c.ID.V2019 {
			mixed = true
		}
		if firstPlatformSerial >= 0 && int(f.Serial) != (firstPlatformSerial+k)&0xffff {
			return nil, fmt.Errorf("%s: reply %d carries platform serial %d, want %d (consecutive from %d)", name, k, f.Serial, (firstPlatformSerial+k)&0xffff, firstPlatformSerial)
		}
		if f.Fragmented {
			return nil, fmt.Errorf("%s: reply %d has the fragment bit set", name, k)
		}
		if msg := chk(f); msg != "" {
			return nil, fmt.Errorf("%s: reply %d to request %#04x (serials %v): %s", name, k, w.r.MsgID, w.r.Serials, msg)
		}
		// callbacks: exactly one write callback with the bytes actually sent
		nw := 0
		for _, e := range h.Events {
			if e.Kind == "cb_write" && bytes.Equal(e.Data2, recv[k].Data) {
				nw++
			}
		}
		if nw == 0 {
			// the callback runs after the bytes left: a scenario that ends right behind the last reply may be over before a
			// (sleeping, pre-empted) callback has recorded - re-run, 2 of 3
			return nil, fmt.Errorf("SOFT %s: reply %d (%x) was reported to the write callback 0 times, want exactly once with the bytes sent", name, k, []byte(recv[k].Data))
		}
		if nw != 1 {
			return nil, fmt.Errorf("%s: reply %d (%x) was reported to the write callback %d times, want exactly once with the bytes sent", name, k, []byte(recv[k].Data), nw)
		}
		// read callback exactly once, before the terminal saw the reply
		data := []byte(w.r.Frames[0])
		if w.r.Transfer {
			data = w.r.FullBody
		}
		var reads []Event
		for _, e := range h.Events {
			if e.Kind == "cb_read" && bytes.Equal(e.Data, data) && e.Cmd == w.r.MsgID {
				reads = append(reads, e)
			}
		}
		mult, nth := sameFrames(c, w.r, w.idx)
		if len(reads) != mult {
			return nil, fmt.Errorf("%s: request %#04x (serials %v), sent %d time(s), was reported to the read callback %d times, want exactly once per copy", name, w.r.MsgID, w.r.Serials, mult, len(reads))
		}
		if mult > 1 {
			resent = true
		}
		if reads[nth].Seq > recv[k].Seq {
			return nil, fmt.Errorf("%s: the reply to request %#04x (serial %v) reached the terminal (seq %d) before the read callback finished (seq %d)", name, w.r.MsgID, w.r.Serials, recv[k].Seq, reads[nth].Seq)
		}
		if w.r.Transfer != reads[0].Flag {
			return nil, fmt.Errorf("%s: read callback for %#04x has SubcontractComplete=%v", name, w.r.MsgID, reads[0].Flag)
		}
	}
	// messages without reply
	for _, r := range c.Reqs {
		if r.Kind == "reply" {
			continue
		}
		nr, nu := 0, 0
		for _, e := range h.Events {
			if bytes.Equal(e.Data, r.Frames[0]) {
				if e.Kind == "cb_read" {
					nr++
				}
				if e.Kind == "cb_unsupported" {
					nu++
				}
			}
		}
		mult := 0
		for _, o := range c.Reqs {
			if !o.Transfer && bytes.Equal(o.Frames[0], r.Frames[0]) {
				mult++
			}
		}
		if mult > 1 {
			resent = true
		}
		if r.Kind == "unsupported" && (nr != 0 || nu != mult) {
			return nil, fmt.Errorf("%s: unsupported %#04x sent %d time(s): read callbacks %d, not-supported callbacks %d (want 0 and one per copy)", name, r.MsgID, mult, nr, nu)
		}
		if r.Kind == "noreply" && nr != mult {
			return nil, fmt.Errorf("%s: %#04x (no reply expected) sent %d time(s): read callbacks %d, want one per copy", name, r.MsgID, mult, nr)
		}
	}
	seen := map[string]bool{}
	if mixed {
		seen["mixed_layouts_on_one_connection"] = true
	}
	if resent {
		seen["identical_frame_sent_again"] = true
	}
	if ref.StripZeros(c.ID.Digits) == "" {
		seen["all_zero_phone"] = true
	}
	for _, r := range c.Reqs {
		seen[fmt.Sprintf("msg_%04x", r.MsgID)] = true
		if r.Transfer {
			seen["sub_packaged"] = true
		}
		if r.Kind != "reply" {
			seen["kind_"+r.Kind] = true
		}
		if r.Note != "" {
			seen[r.Note] = true
		}
	}
	for k := range seen {
		labels = append(labels, k)
	}
	if c.ID.V2019 {
		labels = append(labels, "hdr2019")
	} else {
		labels = append(labels, "hdr2013")
	}
	return labels, nil
}

// sameFrames: how many requests of the conversation consist of exactly the frame of r (retransmissions), and which of them
// (0-based, in sending order) the request at index idx is. The closing heartbeat (idx -1) is unique.
func sameFrames(c convTerminal, r reqJSON, idx int) (mult, nth int) {
	if r.Transfer || idx < 0 {
		return 1, 0
	}
	for i, o := range c.Reqs {
		if !o.Transfer && bytes.Equal(o.Frames[0], r.Frames[0]) {
			if i < idx {
				nth++
			}
			mult++
		}
	}
	return mult, nth
}

// verdict maps child exit states to results shared by all socket-level properties.
func childVerdict(h History, res *kit.Result) bool {
	switch h.Exit {
	case "ok", "race":
		return true
	case "panic":
		res.Err = kit.Fail("the server process died: %s", h.Stderr)
	case "timeout":
		res.Err = fmt.Errorf("SOFT child did not finish within its time budget: %s", h.Stderr)
	default:
		res.Err = fmt.Errorf("INFRA %s", h.Stderr)
	}
	return false
}

func checkC06(c c06Case, _ *kit.Collector) kit.Result {
	res := kit.Result{}
	sc := Scenario{Handlers: c.Handlers, ReadHoldUs: c.HoldUs, WriteHoldUs: c.WriteHold}
	for i, t := range c.Terminals {
		steps, _ := convSteps(t, true)
		if len(c.Prelude) > 0 {
			steps = append([]Step{{Op: "barrier", Barrier: "prelude_done", Parties: len(c.Terminals) + 1}}, steps...)
		}
		sc.Actors = append(sc.Actors, Actor{Name: fmt.Sprintf("t%d", i), Kind: "terminal", Steps: steps})
	}
	if len(c.Prelude) > 0 {
		res.Labels = append(res.Labels, "after_a_connection_that_ended_mid_frame")
		sc.Actors = append(sc.Actors, Actor{Name: "earlier", Kind: "terminal", Steps: []Step{{Op: "dial"}, {Op: "write", Hex: c.Prelude}, {Op: "wait_frames", N: 1, DeadlineMs: 3000},
			{Op: "close", Mode: "fin"}, {Op: "pause", PauseUs: 30000}, {Op: "barrier", Barrier: "prelude_done", Parties: len(c.Terminals) + 1}}})
	}
	h := runScenario(sc)
	if !childVerdict(h, &res) {
		return res
	}
	replyReqs, other := 0, 0
	for i, t := range c.Terminals {
		labels, err := judgeConversation(fmt.Sprintf("t%d", i), t, h, 0)
		if err != nil {
			res.Err = err
			return res
		}
		res.Labels = append(res.Labels, labels...)
		r, o := 0, 0
		for _, q := range t.Reqs {
			if q.Kind == "reply" {
				r++
			} else {
				o++
			}
		}
		if r >= 3 && o >= 1 {
			replyReqs, other = r, o
		}
	}
	res.Labels = append(res.Labels, fmt.Sprintf("terminals_%d", len(c.Terminals)), "handlers_"+map[string]string{"": "default", "parse_all": "parse_all"}[c.Handlers])
	res.Labels = dedup(res.Labels)
	res.NT = replyReqs >= 3 && other >= 1
	return res
}

func dedup(a []string) []string {
	m := map[string]bool{}
	var out []string
	for _, s := range a {
		if !m[s] {
			m[s] = true
			out = append(out, s)
		}
	}
	return out
}

// TestC05Socket (property C05, live server with the default sub-package filter): conversations that consist mostly
// of sub-packaged messages in 1..9 packets, packets 2..N in any order, mixed with plain traffic. Judged like C06:
// each transfer reaches the handlers exactly once, complete, with the concatenated body, and is answered once.
func TestC05Socket(t *testing.T) {
	gen := func(t *rapid.T) c06Case {
		convMostlyTransfers = true
		defer func() { convMostlyTransfers = false }()
		c := genC06(t)
		return c
	}
	check := func(c c06Case, col *kit.Collector) kit.Result {
		res := checkC06(c, col)
		n1, many := false, false
		for _, tm := range c.Terminals {
			for _, r := range tm.Reqs {
				if r.Transfer {
					n1 = n1 || len(r.Serials) == 1
					many = many || len(r.Serials) >= 5
				}
			}
		}
		if n1 {
			res.Labels = append(res.Labels, "transfer_of_one_packet")
		}
		if many {
			res.Labels = append(res.Labels, "transfer_of_5..9_packets")
		}
		res.NT = n1 || many
		return res
	}
	kit.Run(t, kit.Prop[c06Case]{ID: "C05", Part: "TestC05Socket", Gen: gen, Check: softRetry(check)})
}

func TestC06(t *testing.T) {
	kit.Run(t, kit.Prop[c06Case]{ID: "C06", Part: "TestC06", Gen: genC06, Check: softRetry(checkC06)})
}
