package ref

import "encoding/binary"

// RTP is the reference layout of one JT/T 1078 RTP packet (table 19 of JT/T 1078-2016).
type RTP struct {
	V, P, X, CC uint8 // byte 4: V(2) P(1) X(1) CC(4)
	M           uint8 // byte 5: M(1) PT(7)
	PT          uint8
	Seq         uint16
	SimBCD      [6]byte
	Channel     uint8
	DataType    uint8 // high nibble of byte 15
	Mark        uint8 // low nibble of byte 15
	Timestamp   uint64
	LastI       uint16
	LastFrame   uint16
	Payload     []byte
}

// HasTimestamp: every data type except 0100 (transparent data) carries the 8-byte timestamp.
func (r RTP) HasTimestamp() bool { return r.DataType != 4 }

// HasIntervals: only video frames (I, P, B = 0, 1, 2) carry the two interval fields.
func (r RTP) HasIntervals() bool { return r.DataType <= 2 }

func (r RTP) HeaderLen() int {
	n := 16
	if r.HasTimestamp() {
		n += 8
	}
	if r.HasIntervals() {
		n += 4
	}
	return n + 2
}

func (r RTP) Bytes() []byte {
	b := []byte{0x30, 0x31, 0x63, 0x64}
	b = append(b, r.V<<6|(r.P&1)<<5|(r.X&1)<<4|r.CC&15)
	b = append(b, (r.M&1)<<7|r.PT&0x7f)
	b = binary.BigEndian.AppendUint16(b, r.Seq)
	b = append(b, r.SimBCD[:]...)
	b = append(b, r.Channel)
	b = append(b, r.DataType<<4|r.Mark&15)
	if r.HasTimestamp() {
		b = binary.BigEndian.AppendUint64(b, r.Timestamp)
	}
	if r.HasIntervals() {
		b = binary.BigEndian.AppendUint16(b, r.LastI)
		b = binary.BigEndian.AppendUint16(b, r.LastFrame)
	}
	b = binary.BigEndian.AppendUint16(b, uint16(len(r.Payload)))
	return append(b, r.Payload...)
}
