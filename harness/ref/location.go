package ref

// Bit tables of JT/T 808-2019: table 25 (alarm flags), table 24 (status flags, single-bit entries
// only), table 31 (extended vehicle signal status), table 32 (IO status). Key = exported field name
// of the corresponding struct in protocol/model.

var AlarmBits = map[string]int{
	"EmergencyAlarm": 0, "OverSpeed": 1, "FatigueDriving": 2, "DangerousAlarm": 3, "GNSSModuleFault": 4, "GNSSAntennaFault": 5,
	"GNSSAntennaShortCircuit": 6, "TerminalPowerSupply": 7, "TerminalPowerSupplyShutdown": 8, "TerminalLCDFault": 9, "TTSModuleFault": 10,
	"CameraFault": 11, "ICCardModuleFault": 12, "OverSpeedAlarm": 13, "FatigueDrivingAlarm": 14, "ViolationDrivingAlarm": 15,
	"TirePressureAlarm": 16, "RightTurnBlindAreaAlarm": 17, "DrivingTimeout": 18, "OverTimeStop": 19, "InOutArea": 20, "InOutLine": 21,
	"SectionDrivingTime": 22, "LineDeviation": 23, "VSSFault": 24, "OilLevelAbnormality": 25, "StealCar": 26, "LaneDeviation": 27,
	"LaneOffset": 28, "CollisionAlarm": 29, "SideSlipAlarm": 30, "LaneOpeningAlarm": 31,
}

var StatusBits = map[string]int{
	"ACC": 0, "Location": 1, "South": 2, "East": 3, "Suspended": 4, "Encryption": 5, "EmergencyBrake": 6, "LaneOffset": 7,
	"Oil": 10, "Electricity": 11, "VehicleDoor": 12, "FrontDoor": 13, "MiddleDoor": 14, "BackDoor": 15, "DriverDoor": 16, "CustomDoor": 17,
	"UseGPS": 18, "UseBD": 19, "UseGLONASS": 20, "UseGalileo": 21, "VehicleRunning": 22,
}

var ExtSignalBits = map[string]int{
	"LowBeamSignal": 0, "HighBeamSignal": 1, "RightTurnSignal": 2, "LeftTurnSignal": 3, "BrakeSignal": 4, "ReverseGearSignal": 5,
	"FogLightSignal": 6, "ClearanceLights": 7, "HornSignal": 8, "AirConditionerSignal": 9, "NeutralSignal": 10, "RetarderWork": 11,
	"ABSWork": 12, "HeaterWork": 13, "ClutchStatus": 14,
}

var IOBits = map[string]int{"DeepSleepStatus": 0, "SleepStatus": 1}

// ItemLengths: admissible content lengths of the standard additional-information IDs (table 27).
var ItemLengths = map[byte][]int{
	0x01: {4}, 0x02: {2}, 0x03: {2}, 0x04: {2}, 0x05: {30}, 0x06: {2}, 0x11: {1, 5}, 0x12: {6}, 0x13: {7},
	0x25: {4}, 0x2a: {2}, 0x2b: {4}, 0x30: {1}, 0x31: {1},
}

func LengthOK(id byte, n int) bool {
	ls, std := ItemLengths[id]
	if !std {
		return true
	}
	for _, l := range ls {
		if l == n {
			return true
		}
	}
	return false
}

// Item is one TLV of the additional information.
type Item struct {
	ID      byte
	Content []byte
}

// WalkItems splits b into TLVs; ok=false if the walk runs out of bytes (lone ID, or a length beyond the end).
func WalkItems(b []byte) (items []Item, ok bool) {
	for i := 0; i < len(b); {
		if i+2 > len(b) {
			return items, false
		}
		n := int(b[i+1])
		if i+2+n > len(b) {
			return items, false
		}
		items = append(items, Item{ID: b[i], Content: b[i+2 : i+2+n]})
		i += 2 + n
	}
	return items, true
}

func BE16(b []byte) uint16 { return uint16(b[0])<<8 | uint16(b[1]) }
func BE32(b []byte) uint32 {
	return uint32(b[0])<<24 | uint32(b[1])<<16 | uint32(b[2])<<8 | uint32(b[3])
}

// BCDTime renders 6 BCD bytes as "20YY-MM-DD hh:mm:ss".
func BCDTime(b []byte) string {
	d := PhoneDigits(b)
	return "20" + d[0:2] + "-" + d[2:4] + "-" + d[4:6] + " " + d[6:8] + ":" + d[8:10] + ":" + d[10:12]
}
