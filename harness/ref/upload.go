package ref

import "encoding/binary"

// Su-Biao style alarm-attachment protocol, per dialect (1 JS, 2 HLJ, 3 GD, 4 HN, 5 SC).
// Widths: terminal ID / alarm sign.
var DialectIDLen = map[int]int{1: 7, 2: 30, 3: 30, 4: 7, 5: 30}
var DialectSignLen = map[int]int{1: 16, 2: 38, 3: 40, 4: 32, 5: 39}

func pad(s []byte, n int) []byte {
	out := make([]byte, n)
	copy(out, s)
	return out
}

// AlarmSign builds the alarm identification: terminal ID, BCD time, serial, attach count, reserve (zero).
func AlarmSign(dialect int, terminalID []byte, timeBCD [6]byte, serial, attach byte) []byte {
	b := pad(terminalID, DialectIDLen[dialect])
	b = append(b, timeBCD[:]...)
	b = append(b, serial, attach)
	return pad(b, DialectSignLen[dialect])
}

type AttachFile struct {
	Name []byte
	Size uint32
}

// Body1210 builds the 0x1210 body (HLJ has no leading terminal ID).
func Body1210(dialect int, terminalID, alarmID []byte, sign []byte, infoType byte, files []AttachFile) []byte {
	var b []byte
	if dialect != 2 {
		b = append(b, pad(terminalID, DialectIDLen[dialect])...)
	}
	b = append(b, sign...)
	b = append(b, pad(alarmID, 32)...)
	b = append(b, infoType, byte(len(files)))
	for _, f := range files {
		b = append(b, byte(len(f.Name)))
		b = append(b, f.Name...)
		b = binary.BigEndian.AppendUint32(b, f.Size)
	}
	return b
}

// Body1211 is also the layout of 0x1212.
func Body1211(name []byte, fileType byte, size uint32) []byte {
	b := []byte{byte(len(name))}
	b = append(b, name...)
	b = append(b, fileType)
	return binary.BigEndian.AppendUint32(b, size)
}

// Chunk builds one file-data packet: marker, name (50 bytes, or length-prefixed for HLJ), offset, length, data.
func Chunk(dialect int, name []byte, offset uint32, data []byte) []byte {
	b := []byte{0x30, 0x31, 0x63, 0x64}
	if dialect == 2 {
		b = append(b, byte(len(name)))
		b = append(b, name...)
	} else {
		b = append(b, pad(name, 50)...)
	}
	b = binary.BigEndian.AppendUint32(b, offset)
	b = binary.BigEndian.AppendUint32(b, uint32(len(data)))
	return append(b, data...)
}

// SplitFrames cuts a byte stream of back-to-back JT808 frames (no interior 0x7E) into frames;
// rest is what does not form a complete frame.
func SplitFrames(b []byte) (frames [][]byte, rest []byte) {
	for len(b) > 0 {
		if b[0] != 0x7e {
			return frames, b
		}
		end := -1
		for i := 1; i < len(b); i++ {
			if b[i] == 0x7e {
				end = i
				break
			}
		}
		if end < 0 {
			return frames, b
		}
		frames = append(frames, b[:end+1])
		b = b[end+1:]
	}
	return frames, nil
}
