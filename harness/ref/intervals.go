package ref

import "sort"

type Range struct{ Off, Len uint32 }

// Complement returns the maximal missing ranges of [0,size) given received ranges
// (which may overlap or be duplicated), ascending.
func Complement(size uint32, got []Range) []Range {
	rs := append([]Range(nil), got...)
	sort.Slice(rs, func(i, j int) bool { return rs[i].Off < rs[j].Off })
	var out []Range
	cur := uint64(0)
	for _, r := range rs {
		if r.Len == 0 {
			continue
		}
		if uint64(r.Off) > cur {
			end := uint64(r.Off)
			if end > uint64(size) {
				end = uint64(size)
			}
			if end > cur {
				out = append(out, Range{uint32(cur), uint32(end - cur)})
			}
		}
		if e := uint64(r.Off) + uint64(r.Len); e > cur {
			cur = e
		}
	}
	if cur < uint64(size) {
		out = append(out, Range{uint32(cur), uint32(uint64(size) - cur)})
	}
	return out
}
