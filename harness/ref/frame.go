// Package ref holds the reference models the oracles compare against. They are
// written from the JT/T 808-2013/2019, JT/T 1078 and Su-Biao layouts and never
// call the code under test.
package ref

import "strings"

// Frame is the reference reading of one JT/T 808 frame.
type Frame struct {
	ID          uint16
	Attr        uint16
	BodyLen     int
	Encrypt10   uint8 // bit 10 only
	Encrypt3    uint8 // bits 10..12
	Fragmented  bool  // bit 13
	Version2019 bool  // bit 14
	VersionByte byte  // 2019 only
	PhoneBCD    []byte
	Serial      uint16
	Total, No   uint16 // only when Fragmented
	Body        []byte
	Check       byte
	Payload     []byte // unescaped bytes between the delimiters
}

// Escape wraps raw (header+body+checksum) into delimiters, escaping 7E and 7D.
func Escape(raw []byte) []byte {
	out := make([]byte, 0, len(raw)+8)
	out = append(out, 0x7e)
	for _, b := range raw {
		switch b {
		case 0x7e:
			out = append(out, 0x7d, 0x02)
		case 0x7d:
			out = append(out, 0x7d, 0x01)
		default:
			out = append(out, b)
		}
	}
	return append(out, 0x7e)
}

// Unescape is the strict inverse with the one tolerated deviation of the
// property: an unescaped 0x7D as the very last payload byte (the checksum).
// reason is "" on success.
func Unescape(s []byte) (payload []byte, reason string) {
	if len(s) < 2 || s[0] != 0x7e || s[len(s)-1] != 0x7e {
		return nil, "delimiters"
	}
	in := s[1 : len(s)-1]
	out := make([]byte, 0, len(in))
	for i := 0; i < len(in); i++ {
		b := in[i]
		if b != 0x7d {
			out = append(out, b)
			continue
		}
		if i == len(in)-1 {
			out = append(out, 0x7d) // tolerated: raw 7D checksum
			break
		}
		switch in[i+1] {
		case 0x01:
			out = append(out, 0x7d)
		case 0x02:
			out = append(out, 0x7e)
		default:
			return nil, "escape"
		}
		i++
	}
	return out, ""
}

func Xor(b []byte) byte {
	var c byte
	for _, v := range b {
		c ^= v
	}
	return c
}

// Validate decides whether s is a well-formed frame and reads its fields.
// reason is "" exactly when the frame is well-formed.
func Validate(s []byte) (*Frame, string) {
	p, why := Unescape(s)
	if why != "" {
		return nil, why
	}
	if len(p) == 0 {
		return nil, "empty"
	}
	if Xor(p) != 0 {
		return nil, "checksum"
	}
	if len(p) < 4 {
		return nil, "header"
	}
	f := &Frame{Payload: p}
	f.ID = uint16(p[0])<<8 | uint16(p[1])
	f.Attr = uint16(p[2])<<8 | uint16(p[3])
	f.BodyLen = int(f.Attr & 0x3ff)
	f.Encrypt10 = uint8(f.Attr >> 10 & 1)
	f.Encrypt3 = uint8(f.Attr >> 10 & 7)
	f.Fragmented = f.Attr>>13&1 == 1
	f.Version2019 = f.Attr>>14&1 == 1
	pos := 4
	phoneLen := 6
	if f.Version2019 {
		if len(p) < 5 {
			return nil, "header"
		}
		f.VersionByte = p[4]
		pos = 5
		phoneLen = 10
	}
	if len(p) < pos+phoneLen+2 {
		return nil, "header"
	}
	f.PhoneBCD = p[pos : pos+phoneLen]
	pos += phoneLen
	f.Serial = uint16(p[pos])<<8 | uint16(p[pos+1])
	pos += 2
	if f.Fragmented {
		if len(p) < pos+4 {
			return nil, "header"
		}
		f.Total = uint16(p[pos])<<8 | uint16(p[pos+1])
		f.No = uint16(p[pos+2])<<8 | uint16(p[pos+3])
		pos += 4
	}
	if len(p) != pos+f.BodyLen+1 {
		return nil, "length"
	}
	f.Body = p[pos : pos+f.BodyLen]
	f.Check = p[len(p)-1]
	return f, ""
}

// Spec describes a frame to build.
type Spec struct {
	ID          uint16
	Version2019 bool
	VersionByte byte
	Fragmented  bool
	Encrypt     bool
	Bit15       bool
	PhoneBCD    []byte // 6 or 10 bytes
	Serial      uint16
	Total, No   uint16
	Body        []byte
}

// Raw returns header+body+checksum (unescaped).
func (s Spec) Raw() []byte {
	attr := uint16(len(s.Body)) & 0x3ff
	if s.Encrypt {
		attr |= 1 << 10
	}
	if s.Fragmented {
		attr |= 1 << 13
	}
	if s.Version2019 {
		attr |= 1 << 14
	}
	if s.Bit15 {
		attr |= 1 << 15
	}
	raw := []byte{byte(s.ID >> 8), byte(s.ID), byte(attr >> 8), byte(attr)}
	if s.Version2019 {
		raw = append(raw, s.VersionByte)
	}
	raw = append(raw, s.PhoneBCD...)
	raw = append(raw, byte(s.Serial>>8), byte(s.Serial))
	if s.Fragmented {
		raw = append(raw, byte(s.Total>>8), byte(s.Total), byte(s.No>>8), byte(s.No))
	}
	raw = append(raw, s.Body...)
	return append(raw, Xor(raw))
}

// Build returns the escaped, delimited frame.
func (s Spec) Build() []byte { return Escape(s.Raw()) }

// PhoneDigits renders BCD bytes as decimal/hex digits without stripping.
func PhoneDigits(bcd []byte) string {
	const d = "0123456789abcdef"
	var sb strings.Builder
	for _, b := range bcd {
		sb.WriteByte(d[b>>4])
		sb.WriteByte(d[b&15])
	}
	return sb.String()
}

// StripZeros removes leading zeros (an all-zero string becomes "").
func StripZeros(s string) string { return strings.TrimLeft(s, "0") }

// BCDOnly reports whether every nibble is 0..9.
func BCDOnly(bcd []byte) bool {
	for _, b := range bcd {
		if b>>4 > 9 || b&15 > 9 {
			return false
		}
	}
	return true
}

// PhoneBCDFromDigits packs a decimal string (left padded with zeros) into n bytes.
func PhoneBCDFromDigits(digits string, n int) []byte {
	for len(digits) < 2*n {
		digits = "0" + digits
	}
	digits = digits[len(digits)-2*n:]
	out := make([]byte, n)
	for i := 0; i < n; i++ {
		out[i] = (digits[2*i]-'0')<<4 | (digits[2*i+1] - '0')
	}
	return out
}
