# Registry of properties -> parts (test functions in /verif/harness) run by ./check.
# kind: rapid (rapid.Check property, sharded by seed), enum (exhaustive/sharded enumerator),
#       fuzz (native coverage-guided fuzzing, thorough tier only).

def rapid(pkg, test, quick, thorough, qs=8, ts=16, **kw):
    d = {"pkg": pkg, "test": test, "kind": "rapid", "checks": {"quick": quick, "thorough": thorough},
         "shards": {"quick": qs, "thorough": ts}}
    d.update(kw)
    return d


def enum(pkg, test, qs=4, ts=16, **kw):
    d = {"pkg": pkg, "test": test, "kind": "enum", "shards": {"quick": qs, "thorough": ts}}
    d.update(kw)
    return d


def fuzz(pkg, test, seconds, workers=16, **kw):
    d = {"pkg": pkg, "test": test, "kind": "fuzz", "tiers": ["thorough"], "shards": {"thorough": 1},
         "fuzztime": {"thorough": "%ds" % seconds}, "workers": workers}
    d.update(kw)
    return d


REG = {
    "C01": {
        "level": "exploration",
        "technique": "property-based testing (rapid): encode/decode round trip against the library decoder and an independent reference decoder, checksum steering by construction, plus an exhaustive length sweep",
        "level_text": "Generated-input exploration: tens of thousands (quick) to millions (thorough) of (source header, reply ID, serial, body) cases per run, biased towards escape-dense bodies, special checksums and the 1000/1023 length edges, each judged by a round trip through two decoders and a delimiter scan. Holds on everything explored; no proof of absence.",
        "level_note": "Trusts the reference frame codec (harness/ref/frame.go) and the Go runtime; source headers are obtained the way library users obtain them (by decoding a reference-built terminal frame).",
        "rule": "rapid-generated (source frame, reply ID, platform serial, body 0..1023 with special-byte mixtures and "
                "checksum steering) plus an exhaustive sweep of every body length x 4 header shapes x 3 fills; a case is "
                "non-trivial if the body contains 0x7E/0x7D, or the checksum is 0x7E/0x7D, or the body has >= 1000 bytes, "
                "or the source header is fragmented",
        "assumptions": ["reference frame codec in harness/ref/frame.go is a correct reading of JT/T 808 framing"],
        "required_buckets": {"any": ["2013", "2019", "fragmented", "len>=1000", "chk_7e", "chk_7d", "2019:fragmented:len>=1000"]},
        "parts": [
            rapid("pure", "TestC01", 4000, 100000),
            enum("pure", "TestC01Sweep", 4, 8),
        ],
    },
}
