# Registry of properties -> parts (test functions in /verif/harness) run by ./check.
# kind: rapid (rapid.Check property, sharded by seed), enum (exhaustive/sharded enumerator),
#       fuzz (native coverage-guided fuzzing, thorough tier only).

def rapid(pkg, test, quick, thorough, qs=8, ts=16, **kw):
    d = {"pkg": pkg, "test": test, "kind": "rapid", "checks": {"quick": quick, "thorough": thorough},
         "shards": {"quick": qs, "thorough": ts}}
    d.update(kw)
    return d


def enum(pkg, test, qs=4, ts=16, **kw):
    d = {"pkg": pkg, "test": test, "kind": "enum", "shards": {"quick": qs, "thorough": ts}}
    d.update(kw)
    return d


def fuzz(pkg, test, seconds, workers=16, **kw):
    d = {"pkg": pkg, "test": test, "kind": "fuzz", "tiers": ["thorough"], "shards": {"thorough": 1},
         "fuzztime": {"thorough": "%ds" % seconds}, "workers": workers}
    d.update(kw)
    return d


REG = {
    "C01": {
        "level": "exploration",
        "technique": "property-based testing (rapid): encode/decode round trip against the library decoder and an independent reference decoder (source header from a fresh or a recycled message object, further frames from the same header, decode by message objects with history), checksum steering by construction, plus an exhaustive length sweep",
        "level_text": "Generated-input exploration: tens of thousands (quick) to millions (thorough) of (source header, reply ID, serial, body) cases per run, biased towards escape-dense bodies, special checksums and the 1000/1023 length edges, each judged by a round trip through two decoders and a delimiter scan. Holds on everything explored; no proof of absence.",
        "level_note": "Trusts the reference frame codec (harness/ref/frame.go) and the Go runtime; source headers are obtained the way library users obtain them (by decoding a reference-built terminal frame).",
        "rule": "rapid-generated (source frame, reply ID, platform serial, body 0..1023 with special-byte mixtures and "
                "checksum steering) plus an exhaustive sweep of every body length x 4 header shapes x 3 fills; a case is "
                "non-trivial if the body contains 0x7E/0x7D, or the checksum is 0x7E/0x7D, or the body has >= 1000 bytes, "
                "or the source header is fragmented",
        "assumptions": ["reference frame codec in harness/ref/frame.go is a correct reading of JT/T 808 framing"],
        "required_buckets": {"any": ["2013", "2019", "fragmented", "len>=1000", "chk_7e", "chk_7d", "2019:fragmented:len>=1000"]},
        "parts": [
            rapid("pure", "TestC01", 30000, 300000),
            enum("pure", "TestC01Sweep", 4, 8),
        ],
    },
    "C02": {
        "level": "exploration",
        "technique": "differential testing against an independent reference validator (rapid mutations of valid frames + exhaustive enumeration over a special-byte alphabet; every valid frame is decoded after 'cousin' frames with related phones and by a message object that decoded a fragmented frame before); native fuzzing in the thorough tier",
        "level_text": "Differential exploration: every generated or enumerated byte string is decoded by the library and by an independent reference validator; accept/reject must agree and on accept every header field and the body are compared. Quick enumerates ~1M frames exhaustively over the special-byte alphabet plus tens of thousands of mutated valid frames; thorough enumerates ~60M and fuzzes.",
        "level_note": "Trusts harness/ref/frame.go as the reading of the standard (tolerating only a raw 0x7D checksum byte, as the property states); which error value is returned is not compared; EncryptMethod may be bit 10 or bits 10..12; phone digits compared modulo leading zeros and only for BCD nibbles.",
        "rule": "mutations (bit flip, substitution, truncation, extension, wrong length field, header cut, attribute bits) of reference-built valid frames of both versions with and without package fields, random strings over a special-heavy alphabet, and the exhaustive enumeration of wire strings over {7D,01,02,00,41,FF}; non-trivial = the reference accepts the frame or the frame is a mutation/enumeration neighbour of a valid frame",
        "assumptions": ["reference validator harness/ref/frame.go"],
        "required_buckets": {"any": ["accept", "reject_escape", "reject_checksum", "reject_header", "reject_length", "valid_chk7d", "enum", "enum_chk7d"]},
        "parts": [
            rapid("pure", "TestC02", 30000, 300000),
            enum("pure", "TestC02Enum", 16, 16),
            fuzz("pure", "FuzzC02", 90),
        ],
    },
    "C07": {
        "level": "exploration",
        "technique": "property-based round-trip testing (rapid): Parse(Encode(v)) == v and Encode(Parse(Encode(v))) == Encode(v) for 34 message types with per-type in-domain generators, also through a handler object that parsed another value of the same type before; helper round trips against independent readings",
        "level_text": "Generated-input exploration with one constructive generator per two-way message type (all three 0x0100 versions, 2013/2019 0x0102, five active-safety dialects, list lengths 0..max, every terminal-parameter field by reflection plus unknown IDs). Each value is encoded, framed, decoded through the real frame decoder, parsed into a fresh receiver and compared field by field; the re-encoding must be byte-identical.",
        "level_note": "Domain restrictions derived from the parsers: strings are ASCII/GB2312 without NUL at either end, attachment file names non-empty, string parameters non-empty (a zero-length parameter is not re-emitted by the encoder), count/length fields equal to their lists, bodies <= 1023 bytes. Derived flag structs are compared in C08, not here.",
        "rule": "one rapid generator per two-way type (type drawn uniformly); non-trivial = value has >= 2 list elements, or non-ASCII text, or a non-default dialect, or a 2019 header",
        "assumptions": ["comparison ignores derived fields (AlarmSignDetails/StatusSignDetails) and func fields; nil and empty lists are identified"],
        "required_buckets": {"any": ["P0x9212:list>=3", "P0x8800:list0", "P0x8103", "T0x1210:dialect2", "P0x9208:dialect5", "T0x0100", "T0x0704:list>=3", "util_gbk", "util_time", "concurrent_round_trips"]},
        "parts": [
            rapid("pure", "TestC07", 30000, 400000),
            rapid("pure", "TestC07Utils", 10000, 100000, qs=2, ts=4),
            rapid("pure", "TestC07Concurrent", 400, 6000, qs=4, ts=8),
        ],
    },
    "C16": {
        "level": "exploration",
        "technique": "property-based testing (rapid) of the missing-range computation against a reference interval complement, exhaustive enumeration of all receive patterns for sizes <= 12; plus upload scripts with held-back chunks driven through the real attachment connection loop (net.Pipe hook) whose 0x9212 replies are compared with the reference complement, then the listed ranges are resent and the next reply must say complete",
        "level_text": "Generated sets of pairwise disjoint received ranges (0..600 cut points, sizes up to 2^32-1, any insertion order) compared with an independent complement-of-intervals; every subset of unit cells for file sizes <= 12 enumerated exhaustively.",
        "level_note": "Pure part calls Package.StatisticalMissSegments directly on a Package built the way stageStreamData fills it (CurrentSize = sum of lengths).",
        "rule": "received ranges built from drawn cut points, each cell received or not by one of four modes, arrival order permuted; non-trivial = at least 2 gaps",
        "assumptions": ["reference complement harness/ref/intervals.go"],
        "required_buckets": {"any": ["gaps_0", "gaps_2-3", "gap_at_start", "gap_at_end", "single_byte_gap", "size_near_2^32", "gaps_at_1212", "gaps>=2", "resent_chunk"]},
        "parts": [
            rapid("pure", "TestC16", 30000, 300000),
            enum("pure", "TestC16Enum", 1, 1),
            rapid("ext", "TestC16Driven", 1500, 15000),
        ],
    },
    "C17": {
        "level": "exploration",
        "technique": "property-based testing (rapid) against an independent JT/T 1078 packet builder (fresh Packet per packet, or one Packet value for the stream with too-short attempts in between), exhaustive truncation enumeration for all 16 data types x 16 marks, differential fuzzing against an independent walker (thorough)",
        "level_text": "Streams of 1..8 reference-built packets (all data types 0..15, full-range header fields, payload 0..950 and up to 65535) decoded step by step with a fresh Packet: every field, the payload and the remainder are compared; every truncation point is classified; arbitrary byte strings must be rejected as unqualified.",
        "level_note": "What the remainder is on a 'too short' error is pinned by an existing test and not asserted; reused receivers are C03's.",
        "rule": "rapid streams of reference-built packets, optional cut at any length (biased into the last header), optional trailing bytes, plus arbitrary strings; non-trivial = stream of >= 2 packets with different header lengths, or a cut inside a header, or >= 16 arbitrary bytes without the marker",
        "assumptions": ["reference builder harness/ref/rtp.go"],
        "required_buckets": {"any": ["dt0", "dt3", "dt4", "dt9", "cut_in_header", "cut_in_payload", "junk_unqualified", "multi", "trailing_bytes"]},
        "parts": [
            rapid("pure", "TestC17", 20000, 200000),
            rapid("pure", "TestC17Walk", 3000, 80000, qs=4, ts=8),
            enum("pure", "TestC17Enum", 1, 1),
            fuzz("pure", "FuzzC17", 60),
        ],
    },
    "C03": {
        "level": "exploration",
        "technique": "property-based testing (rapid): every exported parser on raw, valid and structure-aware mutated bodies; oracle = no panic on exact-capacity input, same outcome with different bytes behind the slice, same outcome on a reused receiver, the first value still equal to a fresh decode after other input was decoded into other receivers, String total, watchdog for promptness; native fuzzing in the thorough tier",
        "level_text": "Generated-input exploration of 43 decode targets (35 message types x header version x five dialects, five Su-Biao extension parsers directly and through the README meLocation pattern, jt808 Decode, jt1078 Decode). Each body is parsed four ways (exact capacity, embedded before 0x00.. and before 0xFF.., on a receiver that already parsed 0..3 other bodies) and the outcomes must coincide; a panic anywhere is a violation; a 10 s watchdog bounds each case.",
        "level_note": "Over-reads are made visible by exact-capacity slices (Go bounds-checks against capacity) and by differing trailing bytes. Promptness is a 10 s bound per case (nine orders of magnitude of slack). The meLocation outcome is the embedded T0x0200; extension structs of items absent from the message are not part of it.",
        "rule": "target drawn uniformly; body is raw bytes (0..4096), a valid encoding from the C07/C08 generators, or a mutation of one (truncate, adversarial byte/word, extend, drop, duplicate, constant tail); 0..3 prior bodies for the reused receiver; non-trivial = the body was accepted or derives from a valid encoding",
        "assumptions": ["Go slice bounds checks (capacity) make any access beyond an exact-capacity slice panic"],
        "required_buckets": {"any": ["reused_receiver", "origin_mutated", "origin_valid", "origin_raw", "T0x0704:accepted", "T0x1210:accepted", "ext67:accepted", "T0x0200+ext:accepted", "P0x9208:dialect3", "jt1078.Decode:accepted", "jt808.Decode:accepted", "T0x0104:accepted"]},
        "parts": [
            rapid("pure", "TestC03", 40000, 500000),
            fuzz("pure", "FuzzC03", 120),
        ],
    },
    "C08": {
        "level": "exploration",
        "technique": "property-based testing (rapid) of 0x0200/0x0704/0x0801 decoding against an independent reading of the standard's offsets, bit tables and item-length table; exhaustive enumeration of all single bits and pairs (thorough: triples and complements) and of every (id, length) pair",
        "level_text": "Generated base blocks x TLV sequences (every standard ID with admissible and inadmissible lengths, unknown IDs, duplicates, truncated tails) in three carriers are decoded by the library and by literal tables written from JT/T 808-2019 (32 alarm bits, 21 single-bit status flags, 15 extended-signal bits, 2 IO bits, 14 item layouts); accept/reject and every field must agree.",
        "level_note": "Trusts harness/ref/location.go. The two-bit load field is not asserted; tyre pressures asserted for bytes 1..254; with duplicate items the entry must equal the first or the last occurrence. Known finding: 0x11/len 5 area ID (pinned by a golden file) is not asserted while listed.",
        "rule": "carrier drawn from 0x0200/0x0704/0x0801; flag words from {0, one bit, two bits, all but one, uniform}; 0..12 items; non-trivial = at least one flag bit set and at least one item (or the 0x0801 carrier)",
        "assumptions": ["bit and length tables in harness/ref/location.go transcribe JT/T 808-2019 tables 24, 25, 27, 31, 32"],
        "required_buckets": {"any": ["carrier_0200", "carrier_0704", "carrier_0801", "item_11_ok", "item_11_badlen", "item_31_badlen", "item_05_ok", "item_25_ok", "item_2a_ok", "item_unknown", "duplicate_item", "tlv_truncated"]},
        "parts": [
            rapid("pure", "TestC08", 30000, 300000),
            enum("pure", "TestC08Enum", 1, 1),
        ],
    },
    "C04": {
        "level": "exploration",
        "technique": "metamorphic property-based testing (rapid): any segmentation of a stream of valid frames must give the same messages as the frames themselves, with a per-read availability count; exhaustive 1-cut/2-cut enumeration for short streams; through the build-tag hook on the real extractor",
        "level_text": "Streams of 1..12 reference-built frames (both versions, bodies 0..1023 so escaped frames exceed the 1023-byte buffer, escape-dense bodies, fragment headers that reassembly ignores) are cut byte-by-byte, frame-aligned, around delimiters and at random, and fed to the real packageParse either as caller-owned slices or through one reused 1023-byte buffer as connection.reader does. After every read the number of delivered messages must equal the number of frames whose closing delimiter lies in the bytes fed so far; contents must equal the frames.",
        "level_note": "Uses service.NewVerifExtractor (hook, tag verif) which calls packageParse.parse unchanged. The reader goroutine's own loop is exercised by the socket-level checks (C06/C09).",
        "rule": "frames and cut positions drawn by rapid (6 cut modes); non-trivial = at least 2 frames and at least one cut strictly inside a frame",
        "assumptions": ["reference frame builder harness/ref/frame.go"],
        "required_buckets": {"any": ["cut_inside_frame", "cut_in_escape_pair", "cut_before_delimiter", "fast_path_read", "frame_longer_than_1023", "reused_buffer", "single_read", "socket_stream", "after_a_connection_that_ended_mid_frame"]},
        "parts": [
            rapid("ext", "TestC04", 6000, 60000),
            enum("ext", "TestC04Enum", 8, 16),
            rapid("sys", "TestC04Socket", 30, 400, qs=8, ts=16),
        ],
    },
    "C05": {
        "level": "exploration",
        "technique": "model-based property testing (rapid): arrival histories (orders, duplicates, impossible numbers, two interleaved transfers, plain messages, segmentations) against a reference reassembly model, checked after every read; exhaustive orders x single duplicates for N <= 5; plus live-server conversations (child process, default sub-package filter) made mostly of transfers in 1..9 packets, judged by the C06 conversation model (each transfer reaches the handlers once, complete, and is answered once)",
        "level_text": "Histories are generated from the property's grammar (packet 1 first, permutation of 2..N, duplicates of 2..N, impossible numbers 0 / > N, a second transfer, plain frames) and cut per frame, all in one read or at random; after every read the completed-message count per transfer must equal the reference model's and each completed body must be the packet bodies in number order. Both feeding styles (caller-owned slices, reader-style reused buffer).",
        "level_note": "Extractor level through the hook; the socket-level path (one reply per completed transfer, callbacks) is C06's. Packet bodies are non-empty as the property states.",
        "rule": "rapid histories; non-trivial = (N >= 3 and some packet arrives out of ascending order) or a duplicate or an impossible packet is present",
        "assumptions": ["reference model in ext/c05_test.go (reasm) written from the property statement"],
        "required_buckets": {"any": ["duplicates", "impossible_packet", "out_of_order", "two_transfers", "reused_buffer", "cuts_per_frame", "cuts_all_in_one", "cuts_random", "N_>=3", "transfer_restarted", "transfer_of_one_packet", "transfer_of_5..9_packets"]},
        "parts": [
            rapid("ext", "TestC05", 10000, 100000),
            enum("ext", "TestC05Enum", 1, 1),
            rapid("sys", "TestC05Socket", 30, 400, qs=8, ts=16),
        ],
    },
    "C09": {
        "level": "exploration",
        "technique": "invariant over histories (rapid): snapshot of every delivered message at delivery == its content after every later read and after connection cleanup, with the reader's single reused receive buffer reproduced exactly",
        "level_text": "Extractor-level: plain and fragmented histories followed by later one-frame-per-read traffic are fed through one reused 1023-byte buffer exactly as connection.reader does; after every read each earlier delivered message (ID, phone, serial, package numbers, Body, TerminalData) must equal the deep snapshot taken at delivery; finally the connection cleanup (pack.clear, clear(buffer)) runs and everything is compared again.",
        "level_note": "Socket level (TestC09Socket): a live server in a child process; read callbacks keep every *Message (optionally handing it to another goroutine, optionally sleeping up to 2 ms while the next frames arrive); at the end of the scenario - after all later traffic and after the connection closed - every kept message is compared with its delivery-time snapshot inside the child, and the replies must be the C06 replies of their own requests.",
        "rule": "rapid histories as in C04/C05 plus 1..4 later frames and 0..2 idle periods (5.5 / 7 / 61 s) after arbitrary reads, so that the re-request and expiry paths run over the open transfers; non-trivial = at least two reads follow the first delivery",
        "assumptions": [],
        "required_buckets": {"any": ["plain", "fragmented", "cleanup", "handoff", "hold_2000us", "sub_packaged", "transfer_incomplete_at_close", "re-request_sent_in_between"]},
        "parts": [
            rapid("ext", "TestC09Extractor", 8000, 80000),
            rapid("sys", "TestC09Socket", 60, 800, qs=12, ts=16),
        ],
    },
    "C14": {
        "level": "exploration",
        "technique": "model-based property testing (rapid) with a virtual clock: timelines of packets, clock advances and triggers against a reference model of the 5 s re-request / 60 s expiry rules; exhaustive missing-subset enumeration for N <= 8 (10 thorough); socket part with a real 5.4 s silence: seven stalled transfers on one connection after 120 replies (platform serials through 0x7d/0x7e), with and without the sub-package filter, twelve earlier connections that abandoned transfers and four bystanders",
        "level_text": "Timelines (packets, Advance(d) with d on both sides of 5 s and 60 s, heartbeat or half-frame triggers, partial resupply, repeated rounds, two concurrent transfers, N up to 255) are run against the real packageParse with its clock shifted through the hook; after every read the set of 0x8003 messages (decoded by the reference: first packet's serial, count, ascending list) and completed deliveries must equal the model's; expired transfers must be gone.",
        "level_note": "Advance(d) subtracts d from the recorded create/update times, which is equivalent to the wall clock moving forward because the code only compares time.Now() with those fields. Decision points closer than 0.2 s to a deadline are avoided by construction, and a case whose own execution took longer than 60 ms of real time is not judged on timing (tolerance 0.12 s; idle times of 5.25 / 5.5 / 5.9 / 5.999 s and ages of 59.7 / 60.3 s are generated deliberately). Ambiguous readings are avoided by construction: after an advance the next inbound data is never a packet of a pending transfer.",
        "rule": "rapid timelines driven by the same model the oracle uses; non-trivial = some re-request names >= 2 missing packets and an advance crosses 5 s",
        "assumptions": ["virtual clock hook is a faithful stand-in for wall-clock time (validated by the real-clock scenario in the thorough tier of the socket engine)"],
        "required_buckets": {"any": ["advance_crosses_5s", "advance_crosses_60s", "missing>=2", "rounds>=2", "two_transfers", "N>=10", "transfer_restarted", "socket_many_stalled_transfers"]},
        "parts": [
            rapid("ext", "TestC14", 10000, 100000),
            enum("ext", "TestC14Enum", 4, 16),
            enum("sys", "TestC14Socket", 1, 1, timeout={"quick": 300, "thorough": 300}),
            enum("sys", "TestC14RealClock", 1, 1, tiers=["thorough"], timeout={"thorough": 900}),
        ],
    },
    "C15": {
        "level": "exploration",
        "technique": "model-based property testing (rapid): generated upload scripts (files, chunkings, orders, resends, dialects, write partitions) played against the real attachment connection loop over net.Pipe (one Write = one Read) and judged by a reference upload model in lockstep with the observed events and replies",
        "level_text": "Each script announces 1..4 files (names/IDs over arbitrary bytes incl. the 01cd marker and 7E/7D, sizes 1 B..3 chunk sizes, chunk sizes 1 B..64 KiB, five dialects incl. HLJ's length-prefixed chunk header), sends chunks shuffled within/across files with resends and optional held-back chunks, and cuts the byte stream per item, all coalesced, control-frame-plus-next, or at random incl. inside chunk headers. Event k must correspond to item k; a file may be reported complete only when every byte has arrived and then byte-identical, must be reported once everything has arrived, and each control frame gets exactly one prescribed reply with consecutive platform serials.",
        "level_note": "Uses attachment.VerifServeConn (hook, tag verif): same connection object and run loop as GoJT808.Run builds; net.Pipe gives exact control of read boundaries. Names are non-empty, NUL-free at the edges, <= 50 bytes and distinct; the client waits (bounded) for the replies before hanging up, as a terminal does.",
        "rule": "rapid scripts; non-trivial = (>= 2 files or >= 3 chunks) and (chunks out of ascending order or a coalescing/random write partition)",
        "assumptions": ["reference builders harness/ref/upload.go"],
        "required_buckets": {"any": ["dialect1", "dialect2", "dialect3", "dialect4", "dialect5", "marker_in_metadata", "resent_chunk", "chunks_out_of_order", "files>=2", "cuts_control_plus_next", "cuts_coalesce_all", "cuts_random", "cuts_per_item", "announced_twice"]},
        "parts": [
            rapid("ext", "TestC15", 1500, 15000),
        ],
    },
    "C19": {
        "level": "exploration",
        "technique": "property-based testing (rapid) with a path-fragment grammar: uploads with hostile announced names (and hostile alarm numbers / terminal IDs), announced in one or several 0x1210 messages, optionally repeated on a second connection, run against the default file handler inside a throw-away sandbox directory; oracle = walk of the sandbox (every new/modified path must lie under work/<phone>/, decoys unchanged)",
        "level_text": "Announced names are built from path fragments (.., ., /, leading /, repeated separators, backslashes, long names, names of decoy files planted outside the directory) and uploaded completely, partly or not at all through the real connection loop with the server's default FileEventer; afterwards the whole sandbox tree is compared with the allowed sub-tree.",
        "level_note": "The test process chdirs into the sandbox (one process per shard). file.log in the working directory is the handler's own log and is allowed. Rejecting or sanitising a name both pass.",
        "rule": "rapid names from a fragment grammar; non-trivial = the name contains a separator or a '..' component",
        "assumptions": [],
        "required_buckets": {"any": ["name_with_separator_or_dotdot", "files_stored", "end_eof", "end_garbage_frame", "end_unknown_command", "end_bad_checksum", "overlapping_sessions"]},
        "parts": [
            rapid("ext", "TestC19", 600, 8000),
        ],
    },
    "C10": {
        "level": "exploration",
        "technique": "property-based testing / fuzzing of hostile streams and lifecycles: (A) attachment connection loop over net.Pipe with default and custom file handler, (B) JT808 extractor + every handler call a connection goroutine makes, both in-process so a panic is caught, shrunk and replayed; (C) live servers with an attacker and a witness connection in a child process (scenario engine); native fuzzing of (B) in the thorough tier",
        "level_text": "Attack streams: random bytes, mutated valid conversations, valid frames with adversarial header/body fields for every supported ID (counts > items, length bytes 0/0xFF, package number 0 / > total, total 0xFFFF), attachment control frames and chunk headers with adversarial names/offsets/lengths, chunks for unannounced files, data before any 0x1210; lifecycle faults: connect-and-close, close mid-frame / mid-chunk. Oracle: no panic in code that runs on a connection goroutine (there is no recover in either server), the loop ends after the client leaves, and a fresh well-behaved client is then served correctly.",
        "level_note": "In-process parts treat a panic inside the connection loop as a process crash because service.go / attachment/service.go start connections with `go` and no recover. What happens to the attacker's own connection is free.",
        "rule": "rapid attack streams from 8 attack classes x write partitions; non-trivial = the stream got past framing (at least one frame/event accepted) or a lifecycle fault at a non-trivial point",
        "assumptions": [],
        "required_buckets": {"any": ["connect_and_close", "closed_mid_stream", "hostile_chunk_header", "chunk_header_cut_short", "hostile_control_frame", "default_file_handler", "custom_file_handler", "hostile_package_numbers", "frames_accepted", "connection_closed_on_error", "unsupported_id", "attack_connect_and_close", "attack_hostile_package_numbers", "attack_half_frame", "close_rst", "attack_frames_accepted", "handlers_parse_all"]},
        "parts": [
            rapid("ext", "TestC10Attach", 1500, 15000),
            rapid("ext", "TestC10Extractor", 8000, 100000),
            rapid("sys", "TestC10Socket", 40, 600, qs=12, ts=16),
            fuzz("ext", "FuzzC10Extractor", 120),
        ],
    },
    "C06": {
        "level": "exploration",
        "technique": "model-based testing of conversation histories (rapid scenarios executed against a live service.GoJT808 over loopback TCP in a child process; pure replies-model oracle over the recorded history with one global sequence counter); conversations may follow another terminal's aborted connection, contain one-packet and retransmitted sub-packages, 0x0100 bodies of any length, bursts that end in unanswered messages, a lagging writer; plus a 65 600-heartbeat wrap run and an 11 s long-lived connection",
        "level_text": "1..4 concurrent connections each run a generated conversation (every reply-bearing terminal ID, responses, unsupported IDs, both header versions, serials around 0/65535, sub-packaged messages in shuffled order, frames pipelined/coalesced/one per write, matching and non-matching auth codes). The frames each terminal receives must be exactly the model's replies - type, addressing, echoed serial/ID/result, body, order, consecutive platform serials from 0 - and every handled message must have exactly one read callback that finished before its reply reached the terminal and every reply exactly one write callback carrying the bytes sent. Absence of replies is decided by a FIFO sentinel heartbeat, never by sleeping.",
        "level_note": "The reply to a completed sub-packaged transfer is awaited before the terminal sends more (its position among replies of the same read is otherwise unobservable). The read callback sleeps 1 ms in most scenarios so a reply written before the callback would be seen first. Missed deadlines are soft evidence (re-run, 2 of 3). Serial wrap-around over 65536 replies is part of the thorough tier (TestC06Wrap).",
        "rule": "rapid conversations; non-trivial = some connection has >= 3 reply-bearing requests and >= 1 message that must not be answered",
        "assumptions": ["loopback TCP; child process per scenario; reference frame codec"],
        "required_buckets": {"any": ["msg_0100", "msg_0102", "msg_0801", "msg_1212", "msg_1003", "auth_bad", "auth_ok", "kind_noreply", "kind_unsupported", "sub_packaged", "hdr2019", "handlers_parse_all", "terminals_3", "wrap_reached"]},
        "parts": [
            rapid("sys", "TestC06", 80, 1000, qs=12, ts=16),
            enum("sys", "TestC06Wrap", 1, 1, timeout={"quick": 300, "thorough": 900}),
            enum("sys", "TestC06LongLived", 1, 1),
        ],
    },
    "C12": {
        "level": "exploration",
        "technique": "model-based testing of concurrent command histories (rapid scenarios in a child process: scripted terminals answering immediately / late / twice / with a wrong serial / never / out of order while 1..8 SendActiveMessage calls are outstanding, at most one of them with the connection's default timeout (answered after 1.1..2.3 s, or never); commands-model oracle over the history)",
        "level_text": "Each call must return exactly once; its command frame must appear exactly once, on the owning terminal's socket only, with a platform serial no other frame uses (all server frames on a connection are numbered consecutively); if the terminal answered that serial in time the returned message is that very response (bytes and PlatformSeq), never another call's; unanswered calls return the timeout error no earlier than the timeout and (soft) no later than timeout + 3 s; plain traffic sent in between is still answered.",
        "level_note": "0x1003 is excluded (its body carries no serial). At most 3 calls target one terminal at the same instant in this property (more is C13's stress). Timing-dependent verdicts are soft evidence (re-run, 2 of 3).",
        "rule": "rapid call sets x terminal behaviours; non-trivial = >= 2 calls outstanding on one terminal and (held responses released in reverse order or >= 3 calls)",
        "assumptions": ["loopback TCP; child process per scenario"],
        "required_buckets": {"any": ["behaviour_answer", "behaviour_hold", "behaviour_dup", "behaviour_wrong_serial", "behaviour_ignore", "behaviour_late", "concurrent_calls_one_terminal", "responses_out_of_order", "serial_wrap"]},
        "parts": [
            rapid("sys", "TestC12", 25, 400, qs=12, ts=16),
            enum("sys", "TestC12Wrap", 1, 1, timeout={"quick": 300, "thorough": 900}),
        ],
    },
    "C13": {
        "level": "fault_enumeration",
        "technique": "fault enumeration by generated scenarios: seven disconnect points (before join, with q queued commands, on receiving a command, during a slow write callback, around timer expiry, during a duplicate-key refusal, while the session manager lags behind another terminal's full command queue, and - TestC13Stall - a terminal that stopped reading, with a 12 MB command blocking its writer and the commands behind it blocking the session manager, leaving with FIN only / close / reset) x close/reset x q in 0..6 x timeouts x seeded micro-delays, each in a fresh child process; oracle = process alive + every call returned within timeout + slack + a fresh terminal can be commanded afterwards; TestC13Timeouts: 2..5 commands with different timeouts (a long one first) outstanding on one silent online terminal, each call must return within its own timeout plus slack",
        "level_text": "Hard evidence: the child must exit normally and print its history (no 'send on closed channel', no deadlock). Soft evidence (re-run, 2 of 3): every in-flight SendActiveMessage call returned exactly once within timeout + 3 s with a response or an error; afterwards a fresh terminal (optionally re-using the victim's key) joins, is commanded and answers.",
        "level_note": "Schedule search, not schedule enumeration: the harness owns terminals, callers, fault points and barrier-released micro-delays but not the Go scheduler; a window narrower than the injected jitter can be missed.",
        "rule": "rapid over (fault point, q, timeouts, close mode, delays); non-trivial = at least one call in flight at the instant of the fault",
        "assumptions": ["loopback TCP; child process per scenario"],
        "required_buckets": {"any": ["fault_before_join", "fault_close_with_queued", "fault_close_on_command", "fault_slow_write_callback", "fault_close_at_timeout", "fault_duplicate_key", "fault_manager_lag", "close_rst", "q_6", "key_reused_after_fault", "end_half", "key_reused_after_stall"]},
        "parts": [
            rapid("sys", "TestC13", 50, 800, qs=12, ts=16),
            rapid("sys", "TestC13Stall", 16, 240, qs=8, ts=16),
            rapid("sys", "TestC13Timeouts", 2, 24, qs=8, ts=16),
        ],
    },
    "C18": {
        "level": "exploration",
        "technique": "dynamic race detection under generated schedules: the C06/C12/C13 scenario generators, conversations during which an independent dispatcher sends commands to each key the moment it comes online, and the stalled-terminal scenario of C13 run in a child built with -race; oracle = race reports (or concurrent-map fatal errors) naming a frame of the repository, de-duplicated by the pair of top repository frames",
        "level_text": "Every scenario runs a live server under the Go race detector with several connections, pipelined frames, commands in flight and disconnect faults; any report whose stacks contain a repository frame is a violation (hard evidence even if the schedule cannot be reproduced; the report is the replay file's error text).",
        "level_note": "The detector sees only races that occur in an executed schedule; absence of a report is not absence of a race. User-callback code in the harness is synchronised and, under -race, parses only into fresh model values (sharing a model object between the read callback and the writer's ReplyBody is the callback author's choice).",
        "rule": "rapid scenarios of seven kinds; non-trivial = reader and writer of a connection demonstrably active together (a conversation, a command in flight, or a fault with q >= 1)",
        "assumptions": ["Go race detector (happens-before, executed schedules only)"],
        "required_buckets": {"any": ["scenario_c06", "scenario_c12", "scenario_c13"]},
        "parts": [
            rapid("sys", "TestC18", 30, 500, qs=12, ts=16, race=True),
        ],
    },
    "C11": {
        "level": "exploration",
        "technique": "model-based testing of registry histories (rapid): barrier-sequenced histories of dial / hello / further messages / close / SendActiveMessage over 2..4 keys and 2..8 connections against a key->owner model, plus one racing group per history (two hellos on a free key, close racing a hello) judged by invariants and a routing probe; TestC11Mixed: duplicates of online keys and connections with free keys saying hello at the same instant (known outcome); TestC11Stall: terminals saying hello while the session manager is stalled (0.2 s / 3.4 s) behind a terminal that stopped reading; TestC11Cold: rounds of fresh servers whose very first registry operations (commands for unknown keys, hellos of the first terminals) are released by one spin barrier, then duplicates and commands judged against the one-registry model; TestC11KeyFunc: the same registry rules under custom key functions (keys only from register/authentication messages; keys with a prefix stripped, including the empty key), fixed skeleton with drawn parameters",
        "level_text": "Sequential steps are awaited through their own observable (reply received, EOF seen, call returned) so the model is exact: a hello on a free key is admitted (join callback with nil error, reply), on an owned key refused (join callback with error, no reply, EOF) without disturbing the owner; closing frees exactly that key; commands reach the owner's socket only; offline keys give the not-exist error within 1 s; messages with another phone never re-key; each successful join has exactly one leave with the same key on the same server connection. Racing groups: exactly one of two simultaneous hellos wins and the probe command lands on the winner.",
        "level_note": "Leave processing after a client-side close is awaited by a 40 ms pause; verdicts that depend on it are soft evidence (re-run, 2 of 3). Interleavings are sampled, not enumerated.",
        "rule": "rapid histories of 6..30 macro steps; non-trivial = the history contains a refused duplicate and a successful re-join of a key",
        "assumptions": ["loopback TCP; child process per scenario"],
        "required_buckets": {"any": ["refused_duplicate", "rejoin_after_leave", "concurrent_group", "burst_of_six_commands", "stall_3400ms", "joiners_2", "simultaneous_duplicates_and_fresh"]},
        "parts": [
            rapid("sys", "TestC11", 40, 600, qs=12, ts=16),
            rapid("sys", "TestC11Stall", 3, 30, qs=8, ts=16),
            rapid("sys", "TestC11Mixed", 40, 600, qs=8, ts=16),
            rapid("sys", "TestC11Cold", 3, 40, qs=8, ts=16),
            rapid("sys", "TestC11KeyFunc", 6, 60, qs=8, ts=16),
        ],
    },
    "C20": {
        "level": "exploration",
        "technique": "property-based testing (rapid) of the terminal simulator (with 0..3 neighbour simulators alive and used in between) against the frame decoder, the reference decoder and the model parsers; differential test of ExpectedReply against the bytes a live server sends (default bodies and custom bodies of 0..40 arbitrary bytes; predicted silence must be real silence) (child process); one 65 540-frame sequence per version for the serial wrap (thorough)",
        "level_text": "For version in {2011, 2013, 2019} x phones of 1..12 (20) digits incl. phones whose template checksum is 0x7E/0x7D x sequences of 1..200 frames over all 24 default commands and custom bodies 0..1023: each frame must be accepted by Decode and by the reference decoder with that command ID, phone (modulo leading zeros), header layout of the version, serial = previous + 1; default bodies parse with the matching model type and re-encode byte-identically; custom bodies come back byte-identical. Live part: simulator frames of the reply-bearing commands sent as the n-th message of a connection must be answered with exactly ExpectedReply(n-1, frame).",
        "level_note": "Phones are decimal strings up to the field width (longer phones are outside the simulator's documented domain).",
        "rule": "rapid (version, phone, command sequence); non-trivial = phone shorter than the field (padding) or escaped template checksum, and >= 2 frames",
        "assumptions": ["reference frame codec"],
        "required_buckets": {"any": ["version_1", "version_2", "version_3", "template_checksum_escaped", "phone_padded", "custom_body", "cmd_0100", "cmd_0102", "cmd_1212", "pipelined", "serial_wrap", "predictor_version_3"]},
        "parts": [
            rapid("pure", "TestC20", 8000, 80000),
            rapid("sys", "TestC20Live", 40, 500, qs=8, ts=16),
            enum("pure", "TestC20Wrap", 3, 3),
        ],
    },
}
