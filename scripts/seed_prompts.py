#!/usr/bin/env python3
"""Prepares a round of independently written breaking changes: one scratch worktree of /repo and one brief per property.

  seed_prompts.py <dir> <suffix> <ID> [<ID> ...]     e.g.  seed_prompts.py /tmp/wt9 v C04 C05

For each ID: `git -C /repo worktree add --detach <dir>/<ID>` and <dir>/<ID>.prompt.txt. The brief contains only the
property's text (from properties.jsonl) and one-line summaries of the changes already stored for it ("do not repeat");
nothing about the checks. A fresh sub-agent is then told: "Read the file <dir>/<ID>.prompt.txt and carry out the task it
describes exactly." Results land in <dir>/<ID>/out/<suffix>1|2/ (patch.diff, demo/, meta.json); confirm them with
`run_seeded.py confirm <dir>/<ID> <ID> <suffix>1` (parallel-safe) and judge with `run_seeded.py rerun <ID>-<suffix>1`.
"""
import json, os, subprocess, sys

def main():
    root, suffix, ids = sys.argv[1], sys.argv[2], sys.argv[3:]
    props = {}
    for l in open('/verif/properties.jsonl'):
        d = json.loads(l); props[d['id']] = d
    os.makedirs(root, exist_ok=True)
    for pid in ids:
        wt = "%s/%s" % (root, pid)
        subprocess.run("git -C /repo worktree add --detach %s HEAD -q" % wt, shell=True, check=True)
        prev = []
        for name in sorted(os.listdir('/verif/seeded')):
            mp = '/verif/seeded/%s/meta.json' % name
            if name.startswith(pid + "-") and os.path.exists(mp):
                prev.append("- " + (json.load(open(mp)).get("summary") or "")[:260].replace("\n", " "))
        d = props[pid]
        txt = f"""You are helping to evaluate how sensitive a verification effort is. You work ONLY inside your own scratch git worktree of the Go repository cuteLittleDevil/go-jt808 (a JT/T 808 vehicle-telematics TCP server and codec; five Go modules: attachment, protocol, service, shared, terminal) at {wt}. Do not read or touch /repo or /verif or any other directory under /tmp. Never use `git stash` (it is shared across worktrees). The sandbox has no network; before every go command run: export GOFLAGS=-mod=mod GOPROXY=off GOSUMDB=off GOTOOLCHAIN=local

This semantic property of the library should hold:

ID: {pid}
Title: {d['title']}
Statement: {d['statement']}
Quantifier: {d['quantifier']['text']}
Anchors: {json.dumps(d['anchors'], ensure_ascii=False)}

TASK: write TWO different, realistic changes to the library (the kind of thing a maintainer might commit as an optimisation, refactoring, hardening or small feature - not sabotage, no comments revealing the bug) that each BREAK this property while the code still compiles and the repository's existing test suite still passes (run per module: for m in attachment protocol service shared terminal; do (cd $m && go test -vet=off -count=1 ./...); done). Each change must need something SPECIFIC to manifest - a particular interleaving, a fault at a particular point, a multi-step sequence of operations, an unusual input or boundary value, long-running counters, rarely used configuration, or two cooperating sites that each look fine alone - not something ordinary use would expose at once. The change may be in any file of the repository as long as the effect is a violation of the property as stated (read the statement carefully: the violation must be of what it says, observable through the library's public API/behaviour).

These changes have been written before for this property - do NOT repeat them or close variants; find different mechanisms, code sites and triggering conditions:
{chr(10).join(prev)}

For each change k in ({suffix}1, {suffix}2) produce, in {wt}/out/<k>/ :
  - patch.diff : `git diff` of the change against the worktree's HEAD (only library files; do not include out/). It must apply with `git apply` on a clean checkout.
  - demo/ : a small self-contained Go module (its own go.mod with `replace` directives pointing at the modules in {wt}: github.com/cuteLittleDevil/go-jt808/protocol => {wt}/protocol , .../service => {wt}/service, .../shared => {wt}/shared , .../attachment => {wt}/attachment, .../terminal => {wt}/terminal as needed; copy a go.sum from the module you depend on, e.g. cp {wt}/service/go.sum demo/) containing a test (run with `go test -vet=off -count=1 ./...`) or a main program (run with `go run .`) that FAILS (non-zero exit) with the change applied and PASSES (exit 0) on the unchanged code, reliably (run each several times), within 2 minutes. If the run command is not the default, write it as the last line of demo/CMD.
  - meta.json : {{"property": "{pid}", "summary": "<what was changed, where, and how it breaks the property>", "needs_to_manifest": "<what specific condition is needed>", "files_changed": [...], "commands_run": [...]}}
Work on one change at a time: make the edit, verify build + suite + demo fails, save `git diff` to patch.diff, then `git checkout -- .` to restore the worktree, verify the demo passes, then do the next. Leave the worktree clean (no tracked modifications) when done; out/ is untracked and stays. Finally report in two or three sentences per change what you did and the verification outcome. Aim to finish within about 20 minutes in total; if the second change is not working by then, deliver only the first."""
        open("%s/%s.prompt.txt" % (root, pid), "w").write(txt)
        print(pid, wt)

if __name__ == "__main__":
    main()
