#!/usr/bin/env python3
"""Regenerates /verif/MANIFEST.json from registry.py (single source of truth)."""
import json, os, sys
ROOT = os.path.dirname(os.path.dirname(os.path.abspath(__file__)))
sys.path.insert(0, ROOT)
from registry import REG
props = [json.loads(l) for l in open(os.path.join(ROOT, "properties.jsonl"))]
ids = [p["id"] for p in props]
checks, na = [], []
for pid in ids:
    spec = REG.get(pid)
    if spec is None or spec.get("unclaimed"):
        na.append({"property_id": pid, "reason": (spec or {}).get("unclaimed", "check not built yet in this round; planned in DESIGN.md section 4")})
        continue
    checks.append({
        "property_id": pid,
        "quick_cmd": "./check %s --tier quick" % pid,
        "thorough_cmd": "./check %s --tier thorough" % pid,
        "evidence_file": "/verif/evidence/%s.json" % pid,
        "replay_cmd_template": "./check %s --replay {path}" % pid,
        "engine": spec.get("engine", "rapid property tests in /verif/harness driven by ./check"),
        "level_claimed": {"category": spec["level"], "text": spec["level_text"], "design_ref": "DESIGN.md section 4, " + pid},
        "level_note": spec["level_note"],
        "technique": spec["technique"],
    })
m = {
    "version": 1,
    "setup_cmd": "./check --setup",
    "hooks": {
        "guard": "verif",
        "enable": "go test -tags verif (the harness module /verif/harness binds the five modules of /repo with replace directives)",
        "baseline_off_cmd": "/verif/scripts/baseline.sh",
        "source_commits": ["43bd664", "c7ab925", "2c281ae"],
        "add_only": True,
    },
    "engines": [
        {"name": "E1 in-process rapid properties", "path": "/verif/harness/pure", "kind_free_text": "property-based testing (pgregory.net/rapid v1.3.0) against reference models in /verif/harness/ref"},
        {"name": "E2 extractor-level stateful properties", "path": "/verif/harness/ext", "kind_free_text": "rapid operation sequences against the real frame extractor / attachment loop through build-tag hooks"},
        {"name": "E3 scenario executor", "path": "/verif/harness/sys", "kind_free_text": "rapid-generated scenarios executed against live servers in a child process; pure oracle over the recorded history"},
        {"name": "E4 native fuzz targets", "path": "/verif/harness", "kind_free_text": "go test -fuzz with the oracle inside the target (thorough tier only)"},
        {"name": "E5 exhaustive enumerators", "path": "/verif/harness", "kind_free_text": "complete enumeration of small finite sub-domains against the same oracles"},
    ],
    "checks": checks,
    "not_applicable": na,
    "notes": "All checks are generated-input search against explicit oracles (property-based testing / fuzzing). Known findings: /verif/known_findings.json. Replays: /verif/replays/<ID>/; new violations are written to /verif/found/<ID>/.",
}
json.dump(m, open(os.path.join(ROOT, "MANIFEST.json"), "w"), indent=1, ensure_ascii=False)
print("checks:", len(checks), "not_applicable:", len(na))
