#!/usr/bin/env python3
"""Run checks against one seeded change: apply patch to /repo, run baseline suite + the given checks, revert.

usage: try_seeded.py <patch.diff> <tier> <ID> [<ID> ...]
Prints one line per check: <ID> rc=<exit code> wall=<s>  and the VIOLATION lines.
/repo is always restored (git checkout -- . and removal of untracked files the patch added)."""
import subprocess, sys, time, os
patch, tier, ids = sys.argv[1], sys.argv[2], sys.argv[3:]
def sh(cmd, **kw):
    return subprocess.run(cmd, shell=True, stdout=subprocess.PIPE, stderr=subprocess.STDOUT, text=True, **kw)
assert sh("git -C /repo status --short").stdout.strip() == "", "/repo is not clean"
r = sh("git -C /repo apply --whitespace=nowarn %s" % patch)
if r.returncode != 0:
    print("APPLY-FAILED", r.stdout[-800:]); sys.exit(3)
try:
    b = sh("/verif/scripts/baseline.sh")
    ok = b.returncode == 0 and "FAIL" not in b.stdout
    print("baseline_suite_passes=%s" % ok)
    if not ok:
        print(b.stdout[-1500:])
    for i in ids:
        t0 = time.time()
        c = sh("cd /verif && ./check %s --tier %s" % (i, tier))
        lines = [l for l in c.stdout.splitlines() if l.startswith("VIOLATION") or l.startswith("INCONCLUSIVE") or "failing case" in l]
        print("%s rc=%d wall=%.1fs" % (i, c.returncode, time.time() - t0))
        for l in lines[:4]:
            print("   " + l[:400])
finally:
    sh("git -C /repo checkout -- . && git -C /repo clean -fdq")
    print("repo restored:", sh("git -C /repo status --short").stdout.strip() == "")
