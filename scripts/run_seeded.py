#!/usr/bin/env python3
"""Confirms and evaluates independently written breaking changes.

  run_seeded.py import <worktree> <ID> <mN> [extra check IDs...]
      1. in the scratch worktree: apply patch, run the repo suite (must pass), run the demo (must fail),
         revert, run the demo (must pass);
      2. apply the patch to /repo, run ./check <ID> (and extra IDs) in the quick tier, revert;
      3. store patch, demo and meta.json under /verif/seeded/<ID>-<mN>/ and append to seeded/RESULTS.md.
  run_seeded.py confirm <worktree> <ID> <mN>
      steps 1 and 3 only (does not touch /repo; may run in parallel for different worktrees); judge with `rerun <name>`.
  run_seeded.py also <name> <ID> [<ID> ...]
      run further checks against a stored change and record the outcome.
  run_seeded.py rerun [<name> ...]
      re-run the quick checks for stored changes and rewrite RESULTS.md.
"""
import json, os, shutil, subprocess, sys, time
ENV = "export GOFLAGS=-mod=mod GOPROXY=off GOSUMDB=off GOTOOLCHAIN=local; "
SEEDED = "/verif/seeded"

def sh(cmd, cwd=None, timeout=1800):
    try:
        p = subprocess.run(ENV + cmd, shell=True, cwd=cwd, stdout=subprocess.PIPE, stderr=subprocess.STDOUT, text=True, timeout=timeout)
        return p.returncode, p.stdout
    except subprocess.TimeoutExpired as e:
        return 124, (e.stdout or "") + "\nTIMEOUT"

def suite(root):
    rc = 0
    out = ""
    for m in ["attachment", "protocol", "service", "shared", "terminal"]:
        r, o = sh("go test -vet=off -count=1 ./...", cwd=os.path.join(root, m))
        rc |= r
        out += o
    return rc == 0 and "FAIL" not in out, out

def demo_cmd(demo):
    if os.environ.get("DEMO_CMD"):
        return os.environ["DEMO_CMD"] + " 2>&1 || exit 1"
    cmdf = os.path.join(demo, "CMD")
    if os.path.exists(cmdf):
        c = open(cmdf).read().strip().splitlines()
        c = [l for l in c if l.strip() and not l.strip().startswith("#")]
        if c and "cd " not in c[-1]:
            return c[-1] + " 2>&1 || exit 1"
    return "go test -vet=off -count=1 ./... 2>&1 || exit 1" if any(f.endswith("_test.go") for f in os.listdir(demo)) else "go run . "

def run_checks(patch, ids, tier="quick"):
    assert sh("git -C /repo status --short")[1].strip() == "", "/repo not clean"
    rc, out = sh("git -C /repo apply --whitespace=nowarn %s" % patch)
    if rc != 0:
        return {"apply_failed": out[-500:]}
    res = {}
    try:
        for i in ids:
            t0 = time.time()
            rc, out = sh("cd /verif && ./check %s --tier %s" % (i, tier), timeout=3600)
            viol = [l for l in out.splitlines() if l.startswith("VIOLATION")]
            first = [l for l in out.splitlines() if "failing case" in l][:1]
            res[i] = {"exit": rc, "wall_s": round(time.time() - t0, 1), "violations": len(viol), "first_failure": (first[0][:300] if first else "")}
    finally:
        sh("git -C /repo checkout -- . && git -C /repo clean -fdq")
    return res

def write_results():
    rows = []
    for name in sorted(os.listdir(SEEDED)):
        mp = os.path.join(SEEDED, name, "meta.json")
        if not os.path.exists(mp):
            continue
        m = json.load(open(mp))
        checks = m.get("verif_checks", {})
        caught = [k for k, v in checks.items() if isinstance(v, dict) and v.get("exit") == 1]
        missed = [k for k, v in checks.items() if isinstance(v, dict) and v.get("exit") == 0]
        other = [k + ":" + str(v.get("exit")) for k, v in checks.items() if isinstance(v, dict) and v.get("exit") not in (0, 1)]
        rows.append("| %s | %s | %s | %s | %s | %s |" % (name, m.get("property"), (m.get("summary") or "")[:140].replace("|", "/").replace("\n", " "),
                    ", ".join(caught) or "-", ", ".join(missed) or "-", ", ".join(other) or "-"))
    with open(os.path.join(SEEDED, "RESULTS.md"), "w") as f:
        f.write("# Independently written breaking changes vs. the checks (quick tier unless noted)\n\n")
        f.write("Each change compiles, passes the repository's own suite, and has a demonstration that fails with it and passes without (confirmed in a scratch worktree; see each meta.json).\n\n")
        f.write("| change | property | what it does | caught by (exit 1) | not caught (exit 0) | other |\n|---|---|---|---|---|---|\n")
        f.write("\n".join(rows) + "\n")

def do_import(wt, pid, mn, extra, judge=True):
    src = os.path.join(wt, "out", mn)
    patch = os.path.join(src, "patch.diff")
    demo = os.path.join(src, "demo")
    meta = json.load(open(os.path.join(src, "meta.json"))) if os.path.exists(os.path.join(src, "meta.json")) else {"property": pid}
    log = {}
    assert sh("git status --short --untracked-files=no", cwd=wt)[1].strip() == "", "worktree not clean"
    rc, out = sh("git apply --whitespace=nowarn %s" % patch, cwd=wt)
    if rc != 0:
        print("patch does not apply:", out[-400:]); return 1
    try:
        ok, out = suite(wt)
        log["suite_passes_with_change"] = ok
        rc1, o1 = sh(demo_cmd(demo), cwd=demo, timeout=600)
        log["demo_exit_with_change"] = rc1
        log["demo_output_with_change"] = o1[-600:]
    finally:
        sh("git checkout -- . ", cwd=wt)
    rc0, o0 = sh(demo_cmd(demo), cwd=demo, timeout=600)
    log["demo_exit_without_change"] = rc0
    confirmed = log["suite_passes_with_change"] and rc1 != 0 and rc0 == 0
    log["confirmed"] = confirmed
    print("%s %s: suite_passes=%s demo_with=%d demo_without=%d confirmed=%s" % (pid, mn, log["suite_passes_with_change"], rc1, rc0, confirmed))
    if not confirmed:
        print(o1[-800:] if rc1 == 0 else o0[-800:])
        return 1
    name = "%s-%s" % (pid, mn)
    dst = os.path.join(SEEDED, name)
    shutil.rmtree(dst, ignore_errors=True)
    os.makedirs(dst)
    shutil.copy(patch, os.path.join(dst, "patch.diff"))
    shutil.copytree(demo, os.path.join(dst, "demo"))
    checks = run_checks(os.path.join(dst, "patch.diff"), [pid] + extra) if judge else {}
    meta.update({"property": pid, "confirmation": log, "verif_checks": checks,
                 "note": "demo/go.mod replace directives point at the scratch worktree the change was verified in (%s); adjust them to run elsewhere" % wt})
    json.dump(meta, open(os.path.join(dst, "meta.json"), "w"), indent=1, ensure_ascii=False)
    print("   checks:", {k: v.get("exit") for k, v in checks.items() if isinstance(v, dict)})
    if judge:
        write_results()
    return 0

def do_rerun(names):
    for name in names or sorted(os.listdir(SEEDED)):
        d = os.path.join(SEEDED, name)
        mp = os.path.join(d, "meta.json")
        if not os.path.exists(mp):
            continue
        m = json.load(open(mp))
        ids = list(m.get("verif_checks", {}).keys()) or [m["property"]]
        m["verif_checks"] = run_checks(os.path.join(d, "patch.diff"), ids)
        json.dump(m, open(mp, "w"), indent=1, ensure_ascii=False)
        print(name, {k: v.get("exit") for k, v in m["verif_checks"].items() if isinstance(v, dict)})
    write_results()

if __name__ == "__main__":
    os.makedirs(SEEDED, exist_ok=True)
    if sys.argv[1] == "import":
        sys.exit(do_import(sys.argv[2], sys.argv[3], sys.argv[4], sys.argv[5:]))
    elif sys.argv[1] == "confirm":
        # confirm <worktree> <ID> <mN>: step 1 and 3 only (safe to run for several worktrees in parallel); judge later with `rerun <name>`
        sys.exit(do_import(sys.argv[2], sys.argv[3], sys.argv[4], [], judge=False))
    elif sys.argv[1] == "rerun":
        do_rerun(sys.argv[2:])
    elif sys.argv[1] == "also":
        # also <name> <ID...>: run further checks against a stored change and record them
        d = os.path.join(SEEDED, sys.argv[2]); mp = os.path.join(d, "meta.json"); m = json.load(open(mp))
        m.setdefault("verif_checks", {}).update(run_checks(os.path.join(d, "patch.diff"), sys.argv[3:]))
        json.dump(m, open(mp, "w"), indent=1, ensure_ascii=False)
        print(sys.argv[2], {k: v.get("exit") for k, v in m["verif_checks"].items() if isinstance(v, dict)})
        write_results()
    elif sys.argv[1] == "results":
        write_results()
