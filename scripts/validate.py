#!/opt/veriftools/pyvenv/bin/python
import json, sys, glob, jsonschema
ok = True
m = json.load(open('/verif/MANIFEST.json'))
jsonschema.validate(m, json.load(open('/root/.vp/MANIFEST.schema.json')))
print("MANIFEST valid; checks:", len(m["checks"]), "not_applicable:", len(m.get("not_applicable", [])))
es = json.load(open('/root/.vp/EVIDENCE.schema.json'))
for f in sorted(glob.glob('/verif/evidence/*.json')):
    try:
        ev = json.load(open(f)); jsonschema.validate(ev, es)
        c = ev["coverage"]
        print(f.split('/')[-1], ev["tier"], "eval", c.get("evaluations"), "dnt", c.get("distinct_nontrivial"), "wall", ev["wall_s"], "viol", ev.get("violations"))
    except Exception as e:
        ok = False; print("INVALID", f, str(e)[:300])
sys.exit(0 if ok else 1)
