#!/bin/bash
# Runs the repository's own test suite (five modules) with the verif guard OFF.
export GOFLAGS=-mod=mod GOPROXY=off GOSUMDB=off GOTOOLCHAIN=local
rc=0
for m in . attachment protocol service shared terminal; do
  (cd /repo/$m && go test -vet=off -count=1 -timeout 25m ./... ) || rc=1
done
git -C /repo status --short
exit $rc
